#!/bin/bash
# Which lines of /repo/src do the registered quick checks execute?  Validation tooling only (not referenced by
# MANIFEST.json): builds the harness with -Cinstrument-coverage on the nightly toolchain (its llvm-tools
# carry llvm-profdata / llvm-cov) in a scratch directory, runs every quick check there, prints the per-file
# summary and the avt lines that were never executed, and removes the scratch directory.
set -u
D=$(mktemp -d /tmp/verifcov.XXXXXX); trap 'rm -rf "$D"' EXIT
T=$(dirname "$(rustup +nightly which rustc)")/../lib/rustlib/x86_64-unknown-linux-gnu/bin
mkdir -p "$D/root/evidence" "$D/root/replays" "$D/raw"; cp /verif/KNOWN_FINDINGS.txt "$D/root/"
(cd /verif/harness && RUSTFLAGS="-Cinstrument-coverage" CARGO_TARGET_DIR="$D/target" cargo +nightly build --profile checked --offline -q 2>/dev/null) || { echo "build failed"; exit 2; }
for p in C01 C02 C03 C04 C05 C06 C07 C08 C09 C10 C11 C12 C13 C14 C15 C16 C17 C18 C19 C20; do
    LLVM_PROFILE_FILE="$D/raw/$p-%p.profraw" VERIF_ROOT="$D/root" VERIF_WATCHDOG=900 "$D/target/checked/avt_verif" $p ${TIER:-quick} 2>&1 | grep -E " -> " | cut -c1-120
done
"$T/llvm-profdata" merge -sparse "$D"/raw/*.profraw -o "$D/all.profdata" || exit 2
"$T/llvm-cov" report "$D/target/checked/avt_verif" -instr-profile="$D/all.profdata" --sources /repo/src 2>/dev/null | cut -c1-200
echo "--- avt lines never executed:"
"$T/llvm-cov" show "$D/target/checked/avt_verif" -instr-profile="$D/all.profdata" --sources /repo/src 2>/dev/null | awk '/^\/repo\/src/{f=$0} /^ +[0-9]+\| +0\|/{print f" "$0}' | cut -c1-170
