#!/bin/bash
# Confirm one sub-agent seed and run the registered quick checks against it (validation only; not
# referenced by MANIFEST.json).   usage: seedcheck.sh <worktree with patch.diff + examples/seed_demo.rs> <name> <property>
# 1. in the scratch worktree: tests pass with the change, demo fails with it and passes without it
# 2. git -C /repo apply patch; run every quick check; git -C /repo checkout -- .
# 3. store patch, demo and meta.json under /verif/seeded/<name>/
set -u
W="$1"; NAME="$2"; PROP="$3"; TIER="${SEED_TIER:-quick}"
OUT=/verif/seeded/$NAME
cd "$W" || exit 2
git checkout -q -- src 2>/dev/null; git apply patch.diff || { echo "$NAME: patch does not apply"; exit 2; }
if cargo test --offline -q >/tmp/seed_test.log 2>&1; then T=pass; else T=FAIL; fi
cargo run --offline -q --example seed_demo >/tmp/seed_demo_with.log 2>&1; DW=$?
git apply -R patch.diff
cargo run --offline -q --example seed_demo >/tmp/seed_demo_without.log 2>&1; DO=$?
git apply patch.diff
echo "$NAME: tests_with_change=$T demo_exit_with_change=$DW demo_exit_without=$DO"
if [ "$T" != pass ] || [ "$DW" = 0 ] || [ "$DO" != 0 ]; then echo "$NAME: NOT CONFIRMED"; exit 1; fi
[ -z "$(git -C /repo status --porcelain -- src)" ] || { echo "/repo is dirty"; exit 2; }
git -C /repo apply "$W/patch.diff" || exit 2
KILL=""
for p in C01 C02 C03 C04 C05 C06 C07 C08 C09 C10 C11 C12 C13 C14 C15 C16 C17 C18 C19 C20; do
    o=$(cd /verif && VERIF_WATCHDOG=${SEED_WATCHDOG:-120} VERIF_UNIT_WATCHDOG=${SEED_UNIT_WATCHDOG:-10} ./check $p $TIER 2>/dev/null)
    if echo "$o" | grep -q "^VIOLATION property=$p "; then KILL="$KILL $p"; fi
done
git -C /repo checkout -- .
echo "$NAME: aimed=$PROP caught_by:${KILL:- (none)}"
mkdir -p "$OUT"
cp "$W/patch.diff" "$OUT/patch.diff"; cp "$W/examples/seed_demo.rs" "$OUT/seed_demo.rs"; cp "$W/notes.md" "$OUT/notes.md" 2>/dev/null
python3 - "$OUT" "$NAME" "$PROP" "$T" "$DW" "$DO" "$TIER" "$KILL" <<'PY'
import json,sys
out,name,prop,t,dw,do,tier,kill=sys.argv[1:9]
notes=open(out+'/notes.md').read() if __import__('os').path.exists(out+'/notes.md') else ''
json.dump({"name":name,"breaks_property":prop,"needs_to_manifest":notes[:1500],
 "confirmed":{"baseline_tests_with_change":t,"demo_exit_code_with_change":int(dw),"demo_exit_code_without_change":int(do)},
 "ran":["cargo test --offline (scratch worktree, change applied)","cargo run --offline --example seed_demo (with / without the change)","git -C /repo apply patch.diff; ./check <Cxx> %s for all 20 properties; git -C /repo checkout -- ."%tier],
 "quick_checks_reporting_a_violation":kill.split()}, open(out+'/meta.json','w'), indent=1)
PY
