#!/bin/bash
# Validation of the monitors themselves (DESIGN section 8; NOT referenced by MANIFEST.json).
# For every patch in mutants/ (or the files given as arguments): apply it to a scratch worktree of
# /repo, run the 65 baseline tests there, build a scratch copy of the harness against that worktree
# and run every quick check; print which checks raise a VIOLATION.  Everything lives under
# /tmp/selftest and is removed at the end.
set -u
ROOT="$(cd "$(dirname "$0")" && pwd)"
SCR=/tmp/selftest
PATCHES=("$@")
[ ${#PATCHES[@]} -eq 0 ] && PATCHES=("$ROOT"/mutants/*.patch)
rm -rf "$SCR"; mkdir -p "$SCR/harness" "$SCR/evidence" "$SCR/replays"
git -C /repo worktree prune
git -C /repo worktree add -q --detach "$SCR/repo" HEAD || exit 2
cp /repo/Cargo.lock "$SCR/repo/" 2>/dev/null
cp -r "$ROOT/harness/src" "$ROOT/harness/Cargo.lock" "$ROOT/harness/.cargo" "$SCR/harness/"
sed "s#path = \"/repo\"#path = \"$SCR/repo\"#" "$ROOT/harness/Cargo.toml" > "$SCR/harness/Cargo.toml"
cp "$ROOT/KNOWN_FINDINGS.txt" "$SCR/"
export VERIF_ROOT="$SCR" CARGO_NET_OFFLINE=true
PROPS="C01 C02 C03 C04 C05 C06 C07 C08 C09 C10 C11 C12 C13 C14 C15 C16 C17 C18 C19 C20"
TIER="${SELFTEST_TIER:-quick}"
printf "%-40s %-8s %-6s %s\n" mutant aimed tests "checks that report a VIOLATION"
for P in "${PATCHES[@]}"; do
    name=$(basename "$P" .patch)
    aimed=$(head -1 "$P" | sed -n 's/^# aimed at //p')
    git -C "$SCR/repo" checkout -q -- . ; git -C "$SCR/repo" clean -fdq -- src examples 2>/dev/null
    if ! grep -v '^# aimed at' "$P" | git -C "$SCR/repo" apply 2>/dev/null; then
        printf "%-40s %-8s %-6s %s\n" "$name" "$aimed" "-" "patch does not apply"; continue
    fi
    if (cd "$SCR/repo" && cargo test --offline -q >"$SCR/test.log" 2>&1); then tests=pass; else tests=FAIL; fi
    if ! (cd "$SCR/harness" && cargo build --profile checked --offline -q 2>"$SCR/build.log"); then
        printf "%-40s %-8s %-6s %s\n" "$name" "$aimed" "$tests" "harness does not build"; continue
    fi
    killed=""
    for p in $PROPS; do
        out=$(cd "$SCR/harness" && VERIF_WATCHDOG=120 VERIF_UNIT_WATCHDOG=10 ./target/checked/avt_verif $p $TIER 2>/dev/null)
        if echo "$out" | grep -q "^VIOLATION property=$p "; then killed="$killed $p"; fi
    done
    printf "%-40s %-8s %-6s %s\n" "$name" "$aimed" "$tests" "${killed:- (none)}"
done
git -C /repo worktree remove --force "$SCR/repo"
rm -rf "$SCR"
