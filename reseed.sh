#!/bin/bash
# Re-run seedcheck.sh for stored seeds (all, or the names given): recreates a scratch worktree per
# seed from /verif/seeded/<name>/{patch.diff,seed_demo.rs}, confirms it again and refreshes meta.json
# (the "summary" field is preserved).  Validation only; not referenced by MANIFEST.json.
NAMES=("$@"); [ ${#NAMES[@]} -eq 0 ] && NAMES=($(ls /verif/seeded | grep -v summary.py))
for n in "${NAMES[@]}"; do
    d=/verif/seeded/$n; [ -f "$d/patch.diff" ] || continue
    prop=$(python3 -c "import json;print(json.load(open('$d/meta.json'))['breaks_property'])")
    summ=$(python3 -c "import json;print(json.load(open('$d/meta.json')).get('summary',''))")
    w=/tmp/reseed_$n; git -C /repo worktree remove --force $w 2>/dev/null; rm -rf $w
    git -C /repo worktree add -q --detach $w HEAD || continue
    cp /repo/Cargo.lock $w/; mkdir -p $w/examples; cp $d/patch.diff $w/patch.diff; cp $d/seed_demo.rs $w/examples/seed_demo.rs; cp $d/notes.md $w/notes.md 2>/dev/null
    /verif/seedcheck.sh $w $n $prop 2>&1 | grep -E "^$n"
    python3 - "$d/meta.json" "$summ" <<'PY'
import json,sys
m=json.load(open(sys.argv[1])); m['summary']=sys.argv[2]; json.dump(m,open(sys.argv[1],'w'),indent=1)
PY
    git -C /repo worktree remove --force $w; rm -rf $w
done
