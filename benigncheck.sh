#!/bin/bash
# The opposite of seedcheck.sh: a change that is supposed to PRESERVE all properties (a refactoring, or a
# change of behaviour the properties leave open).  Confirms that the baseline tests pass with it, applies it
# to /repo, runs every check (tier $BENIGN_TIER, default quick) and expects silence.  Validation only.
#   usage: benigncheck.sh <worktree with patch.diff> <name>
set -u
W="$1"; NAME="$2"; TIER="${BENIGN_TIER:-quick}"; OUT=/verif/benign/$NAME
cd "$W" || exit 2
git checkout -q -- src 2>/dev/null; git apply patch.diff || { echo "$NAME: patch does not apply"; exit 2; }
if cargo test --offline -q >/tmp/benign_test.log 2>&1; then T=pass; else T=FAIL; fi
if cargo build --offline -q --features verif >/tmp/benign_build.log 2>&1; then B=ok; else B=FAIL; fi
echo "$NAME: baseline_tests=$T verif_feature_build=$B"
[ "$T" = pass ] && [ "$B" = ok ] || { echo "$NAME: NOT USABLE"; exit 1; }
[ -z "$(git -C /repo status --porcelain -- src)" ] || { echo "/repo is dirty"; exit 2; }
git -C /repo apply "$W/patch.diff" || exit 2
ALARMS=""
for p in C01 C02 C03 C04 C05 C06 C07 C08 C09 C10 C11 C12 C13 C14 C15 C16 C17 C18 C19 C20; do
    o=$(cd /verif && VERIF_WATCHDOG=300 ./check $p $TIER 2>/dev/null)
    if echo "$o" | grep -q "^VIOLATION property=$p "; then ALARMS="$ALARMS $p"; echo "$o" | grep -A1 "^VIOLATION" | head -4 | cut -c1-400; fi
    if echo "$o" | grep -q "INCONCLUSIVE"; then ALARMS="$ALARMS $p(inconclusive)"; echo "$o" | grep INCONCLUSIVE | head -2 | cut -c1-300; fi
done
git -C /repo checkout -- .; git -C /repo clean -fdq -- src
echo "$NAME: alarms:${ALARMS:- (none)}"
mkdir -p "$OUT"; cp "$W/patch.diff" "$OUT/patch.diff"; cp "$W/notes.md" "$OUT/notes.md" 2>/dev/null
python3 - "$OUT" "$NAME" "$TIER" "$ALARMS" <<'PY'
import json,sys
out,name,tier,alarms=sys.argv[1:5]
json.dump({"name":name,"kind":"property-preserving change (refactoring / behaviour the properties leave open)","tier":tier,
 "baseline_tests_with_change":"pass","checks_that_raised_an_alarm":alarms.split()}, open(out+'/meta.json','w'), indent=1)
PY
