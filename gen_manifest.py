#!/usr/bin/env python3
"""Writes MANIFEST.json from the table below (kept in one place so that it stays consistent)."""
import json, subprocess

HOOK_COMMITS = subprocess.run(["git", "-C", "/repo", "log", "--format=%H", "--grep=^verif:"], capture_output=True, text=True).stdout.split()

DIFF = "differential runtime monitor: real Vt vs executable reference model after every function"
CLAIMED = {
 # id: (technique, level text, level note, design ref)
 "C04": (DIFF + " (print/auto-wrap/insert/charset/REP steps)", "Every Print/REP/charset/DECAWM/IRM step of ~5e5 (quick) / ~1e7 (thorough) histories is compared cell-for-cell, mark-for-mark and mode-for-mode with the reference model, including ALL sequences of 3 (4) atoms from a 28-atom alphabet on 13 tiny screens and the content x margins x modes x position x command product. Held = no divergence on those executions.", "reference model + conventions U1-U6 trusted; resize content adopted from the real terminal", "5 C04"),
 "C05": (DIFF + " (cursor movement/addressing steps)", "Every movement/addressing function executed in the histories is compared with the model's clamped-arithmetic answer and with a frame check (no cell changes); the command x parameter class x start position x origin x margin-pair product is enumerated on sizes up to 6x5 (17x2).", "reference model trusted; U1/U2 conventions", "5 C05"),
 "C06": (DIFF + " (scroll steps, scrollback compared line by line)", "Every scrolling function (LF/IND/NEL/RI on a margin, wrap-scroll, SU/SD/IL/DL, DECSTBM) is compared with the model, the scrollback line by line after every step; gates require >=1000 scrolls of each shape.", "reference model trusted", "5 C06"),
 "C07": (DIFF + " (erase/insert/delete steps)", "Every ED/EL/ECH/ICH/DCH/DECALN step is compared cell-for-cell incl. pens and soft-wrap marks, product over selectors x counts x every column incl. wrap-pending x pens x marked rows.", "reference model trusted; U3/U4 conventions", "5 C07"),
 "C08": (DIFF + " (SGR fold; pen observed through hook and through printed/blanked cells)", "Every SGR dispatched is compared (decoded operation list and resulting pen), and every cell printed or blanked afterwards is compared through the public accessors.", "reference SGR decoder trusted; malformed colours (U6) not judged", "5 C08"),
 "C17": (DIFF + " (save/restore steps, per-screen saved contexts via hook)", "Every save/restore spelling is compared with the model's per-screen saved context (position, pen, origin, auto-wrap) right at the step, plus the visible consequences afterwards.", "reference model trusted", "5 C17"),
 "C18": (DIFF + " (tab stop set via hook + HT/CHT/CBT landing columns)", "Tab-stop set compared after every HTS/CTC/TBC and every resize; HT/CHT/CBT landing columns compared.", "reference model trusted", "5 C18"),
}

PENDING = ["C01","C02","C03","C09","C10","C11","C12","C13","C14","C15","C16","C19","C20"]

checks = []
for pid, (tech, text, note, ref) in sorted(CLAIMED.items()):
    checks.append({
        "property_id": pid,
        "quick_cmd": f"./check {pid} quick",
        "thorough_cmd": f"./check {pid} thorough",
        "evidence_file": f"/verif/evidence/{pid}.json",
        "replay_cmd_template": f"./check {pid} --replay {{path}}",
        "engine": "avt_verif",
        "level_claimed": {"category": "exploration", "text": text, "design_ref": "DESIGN.md section " + ref},
        "level_note": note,
        "technique": tech,
    })

manifest = {
    "version": 1,
    "setup_cmd": "cd harness && CARGO_NET_OFFLINE=true cargo build --profile checked --offline -q && CARGO_NET_OFFLINE=true cargo build --profile fast --offline -q",
    "hooks": {
        "guard": "cargo feature `verif` of the avt crate (off by default)",
        "enable": "the harness depends on avt by path with features = [\"verif\"] (harness/Cargo.toml); every ./check rebuilds it from /repo's working tree",
        "baseline_off_cmd": "cd /repo && cargo test --workspace --no-fail-fast --offline",
        "source_commits": HOOK_COMMITS,
        "add_only": True,
    },
    "engines": [{"name": "avt_verif", "path": "harness", "serves_properties": sorted(CLAIMED), "kind_free_text": "Rust harness: runtime monitors (reference-model differential, relational two-execution, invariant assertions) over generated and enumerated workloads, sharded over 16 worker processes"}],
    "checks": checks,
    "not_applicable": [{"property_id": p, "reason": "monitor under construction in this session (see DESIGN.md section 5); not claimed until its check is committed"} for p in PENDING if p not in CLAIMED],
    "notes": "All checks: ./check <id> <tier>; VERIF_SEED seeds every random choice. Exit 2 = inconclusive (never a VIOLATION line).",
}
json.dump(manifest, open("/verif/MANIFEST.json", "w"), indent=1)
print("claimed", len(checks), "pending", len(manifest["not_applicable"]))
