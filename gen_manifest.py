#!/usr/bin/env python3
"""Writes MANIFEST.json from the table below (kept in one place so that it stays consistent)."""
import json, subprocess

HOOK_COMMITS = subprocess.run(["git", "-C", "/repo", "log", "--format=%H", "--grep=^verif:"], capture_output=True, text=True).stdout.split()

DIFF = "differential runtime monitor: real Vt vs executable reference model after every function"
CLAIMED = {
 # id: (technique, level text, level note, design ref)
 "C01": ("catch_unwind + overflow/debug-assertion build around every public call and query, process-level isolation of aborts/non-returns, CPU-time vs work-model cost monitor, release re-run and Miri shard (thorough)", "No panic / abort / non-return and no cost out of proportion on ~8e5 (quick) histories incl. all 3-call sequences over a 54-atom alphabet with every query after every call; thorough repeats the workload in the release build, extends sizes to 512x128 / 4096x1 / 1x4096 and interprets 320 hostile histories under Miri.", "sizes above 512x128 (4096x1, 1x4096), limits above 100000 and Builder::build itself are outside the workload (DESIGN section 4); 'never hangs' is decided as bounded work-proportionality", "5 C01"),
 "C11": ("two-terminal round-trip monitor (original vs fresh terminal fed dump()) with probe scripts and random continuations; known-finding predicates over the hooked dump-time state", "~5e4 (quick) round trips, cut at random characters and at EVERY position of short histories, compared after restoring and after every continuation call; the 2112-state enumeration of the saved-cursor dump branch. Divergences in states matching C11-a/b/c are reported as KNOWN-FINDING, anything else as VIOLATION.", "equivalence judged on visible state + canonical hidden state (scrollback excluded, parked saved position modulo clamping, dead parser registers ignored); the dump string itself is not compared", "5 C11"),
 "C04": (DIFF + " (print/auto-wrap/insert/charset/REP steps)", "Every Print/REP/charset/DECAWM/IRM step of ~5e5 (quick) / ~1e7 (thorough) histories is compared cell-for-cell, mark-for-mark and mode-for-mode with the reference model, including ALL sequences of 3 (4) atoms from a 28-atom alphabet on 13 tiny screens and the content x margins x modes x position x command product. Held = no divergence on those executions.", "reference model + conventions U1-U6 trusted; resize content adopted from the real terminal", "5 C04"),
 "C05": (DIFF + " (cursor movement/addressing steps)", "Every movement/addressing function executed in the histories is compared with the model's clamped-arithmetic answer and with a frame check (no cell changes); the command x parameter class x start position x origin x margin-pair product is enumerated on sizes up to 6x5 (17x2).", "reference model trusted; U1/U2 conventions", "5 C05"),
 "C06": (DIFF + " (scroll steps, scrollback compared line by line)", "Every scrolling function (LF/IND/NEL/RI on a margin, wrap-scroll, SU/SD/IL/DL, DECSTBM) is compared with the model, the scrollback line by line after every step; gates require >=1000 scrolls of each shape.", "reference model trusted", "5 C06"),
 "C07": (DIFF + " (erase/insert/delete steps)", "Every ED/EL/ECH/ICH/DCH/DECALN step is compared cell-for-cell incl. pens and soft-wrap marks, product over selectors x counts x every column incl. wrap-pending x pens x marked rows.", "reference model trusted; U3/U4 conventions", "5 C07"),
 "C08": (DIFF + " (SGR fold; pen observed through hook and through printed/blanked cells)", "Every SGR dispatched is compared (decoded operation list and resulting pen), and every cell printed or blanked afterwards is compared through the public accessors.", "reference SGR decoder trusted; malformed colours (U6) not judged", "5 C08"),
 "C17": (DIFF + " (save/restore steps, per-screen saved contexts via hook)", "Every save/restore spelling is compared with the model's per-screen saved context (position, pen, origin, auto-wrap) right at the step, plus the visible consequences afterwards.", "reference model trusted", "5 C17"),
 "C18": (DIFF + " (tab stop set via hook + HT/CHT/CBT landing columns)", "Tab-stop set compared after every HTS/CTC/TBC and every resize; HT/CHT/CBT landing columns compared.", "reference model trusted", "5 C18"),
 "C02": ("invariant assertions after every public call (public API + read-only hook) + differential monitor for the wrap-pending clause", "After every feed_str/feed/resize of ~8e5 (quick) histories, incl. all 3-call sequences over 53 atoms with resizes on tiny screens and heavy alt-screen/resize/save-restore mixing, the geometry invariants are asserted directly; Changes handled three ways.", "hook reports hidden fields truthfully; sizes up to 60x20", "5 C02"),
 "C03": ("exhaustive table comparison against an independent table-driven reference parser + dispatch product + pair/triple memorylessness + stream differential", "The (state x scalar value) table is enumerated completely: 14 states, each through 2-4 (quick) / 5-8 (thorough) backgrounds, x all 1,112,064 scalars, with flush suffixes; function, next state and hooked registers must equal the reference. Dispatch product, all ordered pairs of a sequence pool and streams on top.", "reference parser (harness/src/model/parser.rs) transcribes Williams' table correctly; numbers beyond the promised ranges (U5), malformed SGR colours (U6) and >1 collected intermediate are not judged", "5 C03"),
 "C09": ("oracle computed from the input, over generated texts x every width", "text() and TextUnwrapper output must reproduce the input lines for ~6e4 (quick) texts, each at two sizes, every width 1..40 (1..120) visited.", "comparison modulo trailing Unicode white space (avt trims with str::trim_end)", "5 C09"),
 "C10": ("relational monitor around every resize (logical lines and cursor place before vs after)", "~2e5 (quick) resizes of arbitrary primary-screen contents checked against the re-wrap relation.", "wrap-pending cursor counted as the position after the last column; trailing blanks (any pen) not compared", "5 C10"),
 "C12": ("N-execution comparison (whole / pieces / per-character) incl. all 2^(n-1) splittings of short inputs", "Same visible screen, cursor, dump() and hooked modes for every chunking tried; lines() under unlimited scrollback.", "lines() compared only with unlimited scrollback; on the alternate screen / finite limits after a normalising empty feed_str", "5 C12"),
 "C13": ("bound assertion after every feed_str/resize with Changes consumed, partially consumed or dropped", "lines().len() bound asserted after ~4e5 (quick) calls under 9 finite limits incl. bulk output and narrowing resizes; alternate screen = exactly rows.", "limits up to 1000 in the workloads", "5 C13"),
 "C14": ("two-execution conservation check (limit L vs unlimited), TextCollector streams compared", "Handed-out ++ retained lines equal the unlimited twin's lines cell-for-cell for ~2.5e4 (quick) sessions; TextCollector equal across limits/chunkings.", "sessions containing an accidental RIS are skipped; TextCollector compared modulo trailing empty strings", "5 C14"),
 "C15": ("snapshot/diff around every call vs the returned changed-line set", "Every row whose cells changed during a call must be reported; ~8e5 (quick) histories incl. all 3-call sequences; every cell-mutating function kind seen >=500 times in isolation.", "rows that exist only before or only after a resize are not judged; soft-wrap marks are not cells", "5 C15"),
 "C16": ("relational monitor over alternate-screen excursions (size unchanged: identity; resized: re-wrap relation) + differential rows for the switch", "~4e4 (quick) excursions over the three mode numbers (mixed), half with resize chains: primary text()/lines() identical, entry screen blank in the current pen, 1049 cursor restore, re-wrap relation after resizes, geometry invariants after every call.", "under a finite limit rows may leave at the top after a narrowing resize (trimmed), the cursor-offset clause is then not judged", "5 C16"),
 "C19": ("real-vs-fresh comparison after ESC c (public API, dump string, hooked state) + probe/random continuations", "~3e4 (quick) arbitrary histories with the parser parked in each of the 14 states, then ESC c, compared with a fresh terminal immediately and after every continuation call.", "fresh terminal built with the same size/limit through the public Builder", "5 C19"),
 "C20": ("before/after equality monitor over enumerated and generated inert sequences (what is 'unimplemented' comes from the reference dispatch table)", "~1.1e4 enumerated inert sequences x 6 prior states x {feed_str, feed} and ~1e5 random ones after random histories: nothing observable (incl. dump() and hooked state) changes, no changed line reported, parser back in ground.", "reference dispatch table decides which sequences must be inert", "5 C20"),
}

PENDING = ["C01","C02","C03","C09","C10","C11","C12","C13","C14","C15","C16","C19","C20"]

checks = []
for pid, (tech, text, note, ref) in sorted(CLAIMED.items()):
    checks.append({
        "property_id": pid,
        "quick_cmd": f"./check {pid} quick",
        "thorough_cmd": f"./check {pid} thorough",
        "evidence_file": f"/verif/evidence/{pid}.json",
        "replay_cmd_template": f"./check {pid} --replay {{path}}",
        "engine": "avt_verif",
        "level_claimed": {"category": "exploration", "text": text, "design_ref": "DESIGN.md section " + ref},
        "level_note": note,
        "technique": tech,
    })

manifest = {
    "version": 1,
    "setup_cmd": "cd harness && CARGO_NET_OFFLINE=true cargo build --profile checked --offline -q && CARGO_NET_OFFLINE=true cargo build --profile fast --offline -q",
    "hooks": {
        "guard": "cargo feature `verif` of the avt crate (off by default)",
        "enable": "the harness depends on avt by path with features = [\"verif\"] (harness/Cargo.toml); every ./check rebuilds it from /repo's working tree",
        "baseline_off_cmd": "cd /repo && cargo test --workspace --no-fail-fast --offline",
        "source_commits": HOOK_COMMITS,
        "add_only": True,
    },
    "engines": [{"name": "avt_verif", "path": "harness", "serves_properties": sorted(CLAIMED), "kind_free_text": "Rust harness: runtime monitors (reference-model differential, relational two-execution, invariant assertions) over generated and enumerated workloads, sharded over 16 worker processes"}],
    "checks": checks,
    "not_applicable": [{"property_id": p, "reason": "monitor under construction in this session (see DESIGN.md section 5); not claimed until its check is committed"} for p in PENDING if p not in CLAIMED],
    "notes": "All checks: ./check <id> <tier>; VERIF_SEED seeds every random choice. Exit 2 = inconclusive (never a VIOLATION line).",
}
json.dump(manifest, open("/verif/MANIFEST.json", "w"), indent=1)
print("claimed", len(checks), "pending", len(manifest["not_applicable"]))
