//! What a worker observed: counters, distinct situation keys, samples, violations, known findings.
//! Serialised to a line-based file so that the supervisor can merge the shards.

use crate::hist::{esc, unesc, History};
use std::collections::{BTreeMap, HashSet};
use std::fmt::Write as _;

#[derive(Clone, Debug)]
pub struct Viol {
    pub prop: String,
    pub msg: String,
    pub hist: String, // History::to_text()
}

#[derive(Default, Debug)]
pub struct Report {
    pub evaluations: u64,
    pub counters: BTreeMap<String, u64>,
    pub keys: HashSet<u64>,
    pub samples: Vec<String>,
    pub violations: Vec<Viol>,
    /// known finding id -> (count, example)
    pub known: BTreeMap<String, (u64, String)>,
    pub inconclusive: Vec<String>,
    fast: std::collections::HashMap<&'static str, u64>,
}

pub const MAX_VIOL: usize = 6;

impl Report {
    pub fn new() -> Self {
        Default::default()
    }
    #[inline]
    pub fn count(&mut self, name: &'static str, n: u64) {
        *self.fast.entry(name).or_insert(0) += n;
    }
    pub fn count_s(&mut self, name: String, n: u64) {
        *self.counters.entry(name).or_insert(0) += n;
    }
    #[inline]
    pub fn key(&mut self, k: u64) {
        self.keys.insert(k);
    }
    pub fn sample(&mut self, s: String) {
        if self.samples.len() < 5 {
            self.samples.push(s);
        }
    }
    pub fn violation(&mut self, prop: &str, msg: String, h: &History) {
        self.count_s(format!("violations[{}]", prop), 1);
        if self.violations.iter().filter(|v| v.prop == prop).count() < MAX_VIOL {
            // the witness is in the replay file; the message stays readable
            let msg = if msg.chars().count() > 1500 { format!("{} ... [{} characters cut]", msg.chars().take(1500).collect::<String>(), msg.chars().count() - 1500) } else { msg };
            self.violations.push(Viol { prop: prop.to_string(), msg, hist: h.to_text() });
        }
    }
    pub fn known_finding(&mut self, id: &str, example: String) {
        let e = self.known.entry(id.to_string()).or_insert((0, example));
        e.0 += 1;
    }
    pub fn inconclusive(&mut self, msg: String) {
        if self.inconclusive.len() < 20 {
            self.inconclusive.push(msg);
        }
    }
    fn flush_fast(&mut self) {
        let f = std::mem::take(&mut self.fast);
        for (k, v) in f {
            *self.counters.entry(k.to_string()).or_insert(0) += v;
        }
    }
    pub fn get(&self, name: &str) -> u64 {
        self.counters.get(name).copied().unwrap_or(0) + self.fast.get(name).copied().unwrap_or(0)
    }
    pub fn merge(&mut self, mut o: Report) {
        o.flush_fast();
        self.flush_fast();
        self.evaluations += o.evaluations;
        for (k, v) in o.counters {
            *self.counters.entry(k).or_insert(0) += v;
        }
        self.keys.extend(o.keys);
        for s in o.samples {
            self.sample(s);
        }
        for v in o.violations {
            if self.violations.iter().filter(|x| x.prop == v.prop).count() < MAX_VIOL {
                self.violations.push(v);
            }
        }
        for (k, (n, e)) in o.known {
            let x = self.known.entry(k).or_insert((0, e));
            x.0 += n;
        }
        for i in o.inconclusive {
            self.inconclusive(i);
        }
    }
    pub fn to_text(&mut self) -> String {
        self.flush_fast();
        let mut o = String::new();
        let _ = writeln!(o, "E\t{}", self.evaluations);
        for (k, v) in &self.counters {
            let _ = writeln!(o, "C\t{}\t{}", esc(k), v);
        }
        for k in &self.keys {
            let _ = writeln!(o, "K\t{:x}", k);
        }
        for s in &self.samples {
            let _ = writeln!(o, "S\t{}", esc(s));
        }
        for v in &self.violations {
            let _ = writeln!(o, "V\t{}\t{}\t{}", v.prop, esc(&v.msg), esc(&v.hist));
        }
        for (k, (n, e)) in &self.known {
            let _ = writeln!(o, "F\t{}\t{}\t{}", esc(k), n, esc(e));
        }
        for i in &self.inconclusive {
            let _ = writeln!(o, "I\t{}", esc(i));
        }
        o.push_str("END\n");
        o
    }
    /// None if the file is incomplete (worker died)
    pub fn from_text(t: &str) -> Option<Report> {
        let mut r = Report::new();
        let mut complete = false;
        for line in t.lines() {
            let p: Vec<&str> = line.split('\t').collect();
            match p[0] {
                "E" => r.evaluations = p.get(1)?.parse().ok()?,
                "C" => {
                    r.counters.insert(unesc(p.get(1)?)?, p.get(2)?.parse().ok()?);
                }
                "K" => {
                    r.keys.insert(u64::from_str_radix(p.get(1)?, 16).ok()?);
                }
                "S" => r.samples.push(unesc(p.get(1)?)?),
                "V" => r.violations.push(Viol { prop: p.get(1)?.to_string(), msg: unesc(p.get(2)?)?, hist: unesc(p.get(3)?)? }),
                "F" => {
                    r.known.insert(unesc(p.get(1)?)?, (p.get(2)?.parse().ok()?, unesc(p.get(3)?)?));
                }
                "I" => r.inconclusive.push(unesc(p.get(1)?)?),
                "END" => complete = true,
                _ => {}
            }
        }
        if complete {
            Some(r)
        } else {
            None
        }
    }
}
