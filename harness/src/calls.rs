//! Executing histories through the real public API, call by call, with the three ways a caller
//! can treat the returned `Changes` (consume, consume partially, drop).

use crate::hist::{Call, History};
use crate::model::term::MLine;
use crate::rng::Rng;
use avt::Vt;

#[derive(Clone, Copy, Debug, PartialEq)]
pub enum Handling {
    Consume,
    Partial(usize),
    Drop,
}

impl Handling {
    pub fn pick(r: &mut Rng) -> Handling {
        match r.below(4) {
            0 => Handling::Drop,
            1 => Handling::Partial(r.below(3)),
            _ => Handling::Consume,
        }
    }
    pub fn class(&self) -> u64 {
        match self {
            Handling::Consume => 0,
            Handling::Partial(_) => 1,
            Handling::Drop => 2,
        }
    }
}

#[derive(Debug, Default)]
pub struct Outcome {
    /// `Changes.lines` (None for `feed`, which returns nothing)
    pub lines: Option<Vec<usize>>,
    /// lines taken from `Changes.scrollback`
    pub drained: Vec<MLine>,
}

/// `Changes` cannot be named outside avt (its module is private), hence a macro.
macro_rules! finish {
    ($changes:expr, $handling:expr) => {{
        let ch = $changes;
        let lines = Some(ch.lines.clone());
        let mut drained = Vec::new();
        match $handling {
            Handling::Consume => {
                for l in ch.scrollback {
                    drained.push(MLine::of(&l));
                }
            }
            Handling::Partial(n) => {
                let mut it = ch.scrollback;
                for _ in 0..n {
                    match it.next() {
                        Some(l) => drained.push(MLine::of(&l)),
                        None => break,
                    }
                }
                drop(it);
            }
            Handling::Drop => drop(ch),
        }
        Outcome { lines, drained }
    }};
}

pub fn apply(vt: &mut Vt, call: &Call, handling: Handling) -> Outcome {
    match call {
        Call::FeedStr(s) => finish!(vt.feed_str(s), handling),
        Call::Resize(c, r) => finish!(vt.resize(*c, *r), handling),
        Call::Feed(s) => {
            for ch in s.chars() {
                vt.feed(ch);
            }
            Outcome { lines: None, drained: vec![] }
        }
    }
}

/// run a whole history, consuming every `Changes`; returns the drained scrollback lines in order
pub fn run_all(vt: &mut Vt, h: &History) -> Vec<MLine> {
    let mut out = Vec::new();
    for c in &h.calls {
        out.extend(apply(vt, c, Handling::Consume).drained);
    }
    out
}
