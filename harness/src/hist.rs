//! Histories: the unit of work and of replay.  A history is a terminal configuration plus the
//! exact list of public calls made on it.

use std::fmt::Write;

#[derive(Clone, Debug, PartialEq)]
pub enum Call {
    /// one `Vt::feed_str` call
    FeedStr(String),
    /// `Vt::feed` once per character
    Feed(String),
    /// `Vt::resize`
    Resize(usize, usize),
}

#[derive(Clone, Debug, PartialEq)]
pub struct History {
    pub cols: usize,
    pub rows: usize,
    pub limit: Option<usize>,
    pub calls: Vec<Call>,
    /// monitor-specific annotations (e.g. where an excursion starts), kept in replay files
    pub meta: Vec<(String, usize)>,
}

pub fn esc(s: &str) -> String {
    let mut o = String::with_capacity(s.len() + 8);
    for c in s.chars() {
        match c {
            '\\' => o.push_str("\\\\"),
            '"' => o.push_str("\\\""),
            ' '..='~' => o.push(c),
            _ => {
                let _ = write!(o, "\\u{{{:x}}}", c as u32);
            }
        }
    }
    o
}

pub fn unesc(s: &str) -> Option<String> {
    let mut o = String::new();
    let mut it = s.chars().peekable();
    while let Some(c) = it.next() {
        if c != '\\' {
            o.push(c);
            continue;
        }
        match it.next()? {
            '\\' => o.push('\\'),
            '"' => o.push('"'),
            'u' => {
                if it.next()? != '{' {
                    return None;
                }
                let mut v = 0u32;
                loop {
                    let d = it.next()?;
                    if d == '}' {
                        break;
                    }
                    v = v * 16 + d.to_digit(16)?;
                }
                o.push(char::from_u32(v)?);
            }
            _ => return None,
        }
    }
    Some(o)
}

/// JSON string literal (for evidence files)
pub fn json_str(s: &str) -> String {
    let mut o = String::with_capacity(s.len() + 2);
    o.push('"');
    for c in s.chars() {
        match c {
            '\\' => o.push_str("\\\\"),
            '"' => o.push_str("\\\""),
            ' '..='~' => o.push(c),
            c if (c as u32) < 0x10000 => {
                let _ = write!(o, "\\u{:04x}", c as u32);
            }
            c => {
                let v = c as u32 - 0x10000;
                let _ = write!(o, "\\u{:04x}\\u{:04x}", 0xd800 + (v >> 10), 0xdc00 + (v & 0x3ff));
            }
        }
    }
    o.push('"');
    o
}

impl History {
    pub fn new(cols: usize, rows: usize, limit: Option<usize>) -> Self {
        History { cols, rows, limit, calls: Vec::new(), meta: Vec::new() }
    }

    pub fn to_text(&self) -> String {
        let mut o = String::new();
        let _ = writeln!(o, "size {} {}", self.cols, self.rows);
        match self.limit {
            None => o.push_str("limit none\n"),
            Some(l) => {
                let _ = writeln!(o, "limit {}", l);
            }
        }
        for (k, v) in &self.meta {
            let _ = writeln!(o, "meta {} {}", k, v);
        }
        for c in &self.calls {
            match c {
                Call::FeedStr(s) => {
                    let _ = writeln!(o, "feed_str \"{}\"", esc(s));
                }
                Call::Feed(s) => {
                    let _ = writeln!(o, "feed \"{}\"", esc(s));
                }
                Call::Resize(c, r) => {
                    let _ = writeln!(o, "resize {} {}", c, r);
                }
            }
        }
        o
    }

    /// one-line rendering for evidence samples
    pub fn brief(&self) -> String {
        let mut o = format!(
            "{}x{} limit={} :",
            self.cols,
            self.rows,
            self.limit.map(|l| l.to_string()).unwrap_or_else(|| "none".into())
        );
        for c in &self.calls {
            match c {
                Call::FeedStr(s) => {
                    let _ = write!(o, " feed_str(\"{}\")", esc(s));
                }
                Call::Feed(s) => {
                    let _ = write!(o, " feed*(\"{}\")", esc(s));
                }
                Call::Resize(c, r) => {
                    let _ = write!(o, " resize({},{})", c, r);
                }
            }
            if o.len() > 600 {
                o.push_str(" ...");
                break;
            }
        }
        o
    }

    pub fn from_text(t: &str) -> Option<History> {
        let mut h = History::new(0, 0, None);
        for line in t.lines() {
            let line = line.trim_end();
            let (kw, rest) = match line.find(' ') {
                Some(i) => (&line[..i], line[i + 1..].trim()),
                None => (line, ""),
            };
            let quoted = |r: &str| -> Option<String> {
                let r = r.strip_prefix('"')?.strip_suffix('"')?;
                unesc(r)
            };
            match kw {
                "size" => {
                    let mut p = rest.split(' ');
                    h.cols = p.next()?.parse().ok()?;
                    h.rows = p.next()?.parse().ok()?;
                }
                "limit" => {
                    h.limit = if rest == "none" { None } else { Some(rest.parse().ok()?) };
                }
                "meta" => {
                    let mut p = rest.split(' ');
                    h.meta.push((p.next()?.to_string(), p.next()?.parse().ok()?));
                }
                "feed_str" => h.calls.push(Call::FeedStr(quoted(rest)?)),
                "feed" => h.calls.push(Call::Feed(quoted(rest)?)),
                "resize" => {
                    let mut p = rest.split(' ');
                    h.calls.push(Call::Resize(p.next()?.parse().ok()?, p.next()?.parse().ok()?));
                }
                _ => {} // comment / metadata lines
            }
        }
        if h.cols == 0 || h.rows == 0 {
            return None;
        }
        Some(h)
    }

    pub fn meta_get(&self, k: &str) -> Option<usize> {
        self.meta.iter().find(|(n, _)| n == k).map(|(_, v)| *v)
    }

    pub fn build(&self) -> avt::Vt {
        let mut b = avt::Vt::builder();
        b.size(self.cols, self.rows);
        if let Some(l) = self.limit {
            b.scrollback_limit(l);
        }
        b.build()
    }

    pub fn all_text(&self) -> String {
        let mut s = String::new();
        for c in &self.calls {
            match c {
                Call::FeedStr(x) | Call::Feed(x) => s.push_str(x),
                _ => {}
            }
        }
        s
    }
}
