//! Differential monitor: the real terminal is fed one character at a time through `Vt::feed`; the
//! same characters go through a stand-alone `avt::parser::Parser` (public API) and through the
//! reference parser + terminal.  After every dispatched function the model and the real terminal
//! are compared (public observables + hooked hidden state); the first divergence is attributed to
//! the property that governs the function executed at that step (DESIGN §3.4).

use crate::cmp::{compare_hidden, compare_parser, compare_public, compare_public_opt, Above, MisKind, Mismatch};
use crate::hist::{esc, Call, History};
use crate::model::parser::{conv, Act, PModel, St, F};
use crate::model::term::Model;
use crate::report::Report;
use crate::rng::mix;
use avt::util::TextUnwrapper;

pub struct Divergence {
    pub props: Vec<&'static str>,
    pub msg: String,
}

pub enum End {
    Ok,
    Diverged(Divergence),
    /// the model cannot follow (documented corner), not a verdict
    Abandoned(&'static str),
}

/// Which property governs a function (primary attribution by kind).
pub fn props_of(f: &F, scrolled: bool) -> Vec<&'static str> {
    use F::*;
    match f {
        Print(_) | Rep(_) => {
            if scrolled {
                vec!["C04", "C06"]
            } else {
                vec!["C04"]
            }
        }
        So | Si | Gzd4(_) | G1d4(_) => vec!["C04"],
        Sm(ms) | Rm(ms) => {
            if ms.contains(&4) {
                vec!["C04"]
            } else {
                vec![]
            }
        }
        Bs | Cr | Cuu(_) | Cud(_) | Cuf(_) | Cub(_) | Cnl(_) | Cpl(_) | Cha(_) | Vpa(_) | Vpr(_) | Cup(..) => vec!["C05"],
        Ht | Cht(_) | Cbt(_) => vec!["C05", "C18"],
        Lf | Nel | Ri => {
            if scrolled {
                vec!["C06"]
            } else {
                vec!["C05"]
            }
        }
        Su(_) | Sd(_) | Il(_) | Dl(_) => vec!["C06"],
        Decstbm(..) => vec!["C05", "C06"],
        Ed(_) | El(_) | Ech(_) | Ich(_) | Dch(_) | Decaln => vec!["C07"],
        Sgr(_) => vec!["C08"],
        Decset(ms) | Decrst(ms) => {
            let mut v = vec![];
            for m in ms {
                match m {
                    6 => v.push("C05"),
                    7 => v.push("C04"),
                    47 | 1047 => v.push("C16"),
                    1048 => v.push("C17"),
                    1049 => {
                        v.push("C16");
                        v.push("C17");
                    }
                    _ => {}
                }
            }
            v.sort();
            v.dedup();
            v
        }
        Decsc | Decrc | Scosc | Scorc | Decstr => vec!["C17"],
        Hts | Ctc(_) | Tbc(_) => vec!["C18"],
        Ris => vec!["C19"],
        Xtwinops(..) => vec!["C20"],
    }
}

fn refine(mut props: Vec<&'static str>, mis: &Mismatch) -> Vec<&'static str> {
    match mis.kind {
        MisKind::CellPen | MisKind::HPen => props.push("C08"),
        MisKind::HTabs => props.push("C18"),
        MisKind::HSaved => props.push("C17"),
        // the wrap-pending position entered or left other than the model allows
        MisKind::PendingCursor | MisKind::HPending => props.push("C02"),
        // a hidden component changed by a function that has no business changing it: the frame
        // clause of the property that owns the component ("... no other mode changes")
        MisKind::HMargins => {
            props.push("C05");
            props.push("C06");
        }
        MisKind::HOrigin => props.push("C05"),
        MisKind::HAutowrap | MisKind::HInsert | MisKind::HCharset => props.push("C04"),
        MisKind::HScreen => props.push("C16"),
        _ => {}
    }
    props.sort();
    props.dedup();
    props
}

fn class_n(n: usize, edge: usize) -> u64 {
    if n == 0 {
        0
    } else if n == 1 {
        1
    } else if n == 65535 {
        7
    } else if n + 1 == edge {
        3
    } else if n == edge {
        4
    } else if n == edge + 1 {
        5
    } else if n > edge {
        6
    } else {
        2
    }
}

fn first_param(f: &F) -> Option<u16> {
    use F::*;
    match f {
        Ich(n) | Cuu(n) | Cud(n) | Cuf(n) | Cub(n) | Cnl(n) | Cpl(n) | Cha(n) | Cht(n) | Ed(n) | El(n) | Il(n) | Dl(n)
        | Dch(n) | Su(n) | Sd(n) | Ctc(n) | Ech(n) | Cbt(n) | Rep(n) | Vpa(n) | Vpr(n) | Tbc(n) => Some(*n),
        Cup(r, _) => Some(*r),
        Decstbm(t, _) => Some(*t),
        _ => None,
    }
}

fn char_class(c: char) -> u64 {
    match c as u32 {
        0x20 => 0,
        0x21..=0x5f => 1,
        0x60..=0x7e => 2,
        0x7f => 3,
        0xa0..=0xff => 4,
        0x100..=0x2fff => 5,
        0x3000..=0xffff => 6,
        _ => 7,
    }
}

/// The abstract situation in which a function is executed (evidence: distinct_nontrivial).
pub fn step_key(m: &Model, f: &F) -> u64 {
    let kind = f.kind().bytes().fold(0u64, |a, b| a.wrapping_mul(131).wrapping_add(b as u64));
    let vertical = matches!(
        f,
        F::Cuu(_) | F::Cud(_) | F::Cnl(_) | F::Cpl(_) | F::Vpa(_) | F::Vpr(_) | F::Il(_) | F::Dl(_) | F::Su(_) | F::Sd(_) | F::Cup(..) | F::Decstbm(..)
    );
    let edge = if vertical { m.rows } else { m.cols };
    let pc = match f {
        F::Print(c) => char_class(*c),
        F::Cup(r, c) => class_n(*r as usize, m.rows) * 8 + class_n(*c as usize, m.cols),
        F::Decstbm(t, b) => class_n(*t as usize, m.rows) * 8 + class_n(*b as usize, m.rows) + if t < b { 64 } else { 0 },
        F::Sgr(ops) => ops.len().min(7) as u64 * 32 + ops.first().map(|o| sg_class(o)).unwrap_or(31),
        F::Decset(ms) | F::Decrst(ms) | F::Sm(ms) | F::Rm(ms) => ms.iter().fold(ms.len() as u64, |a, m| a * 7 + (*m as u64 % 64)),
        _ => first_param(f).map(|n| class_n(n as usize, edge)).unwrap_or(9),
    };
    let colc = if m.col == m.cols {
        5
    } else if m.col == 0 {
        0
    } else if m.col + 1 == m.cols {
        4
    } else if m.col == 1 {
        1
    } else {
        2
    };
    let rowc = if m.row < m.top {
        0
    } else if m.row == m.top {
        1
    } else if m.row < m.bottom {
        2
    } else if m.row == m.bottom {
        3
    } else {
        4
    } + if m.row == 0 { 8 } else { 0 }
        + if m.row + 1 == m.rows { 16 } else { 0 };
    let shape = match (m.top == 0, m.bottom + 1 == m.rows) {
        (true, true) => 0,
        (true, false) => 1,
        (false, true) => 2,
        (false, false) => 3,
    };
    let flags = (m.origin as u64)
        | (m.autowrap as u64) << 1
        | (m.insert as u64) << 2
        | (m.drawing[m.gl] as u64) << 3
        | (m.alt as u64) << 4
        | (m.view[m.row].wrapped as u64) << 5
        | (m.newline as u64) << 6
        | (m.pen.class() as u64) << 7;
    let sizec = match m.cols {
        1 => 0,
        2 => 1,
        3..=7 => 2,
        _ => 3,
    } * 4
        + match m.rows {
            1 => 0,
            2 => 1,
            3..=5 => 2,
            _ => 3,
        };
    let mut k = mix(kind, pc);
    k = mix(k, colc << 8 | rowc);
    k = mix(k, shape << 16 | flags);
    mix(k, sizec)
}

fn sg_class(o: &crate::model::parser::Sg) -> u64 {
    use crate::model::parser::{MColor, Sg::*};
    match o {
        Reset => 0,
        Bold => 1,
        Faint => 2,
        Italic => 3,
        Underline => 4,
        Blink => 5,
        Inverse => 6,
        Strike => 7,
        NoIntensity => 8,
        NoItalic => 9,
        NoUnderline => 10,
        NoBlink => 11,
        NoInverse => 12,
        NoStrike => 13,
        Fg(MColor::Idx(i)) => 14 + (*i as u64 / 8).min(2),
        Fg(MColor::Rgb(..)) => 17,
        NoFg => 18,
        Bg(MColor::Idx(i)) => 19 + (*i as u64 / 8).min(2),
        Bg(MColor::Rgb(..)) => 22,
        NoBg => 23,
    }
}

fn scalars(m: &Model) -> (usize, usize, bool, crate::model::term::MPen, [bool; 2], usize, usize, u8, usize, usize, crate::model::term::Saved, bool) {
    let modes = (m.insert as u8) | (m.origin as u8) << 1 | (m.autowrap as u8) << 2 | (m.newline as u8) << 3 | (m.app as u8) << 4;
    (m.col, m.row, m.visible, m.pen, m.drawing, m.gl, m.tabs.len(), modes, m.top, m.bottom, m.saved, m.alt)
}

fn writes_cells(f: &F) -> bool {
    matches!(
        f,
        F::Print(_) | F::Rep(_) | F::Ed(_) | F::El(_) | F::Ech(_) | F::Ich(_) | F::Dch(_) | F::Decaln | F::Il(_) | F::Dl(_) | F::Su(_) | F::Sd(_)
    )
}

pub struct Diff {
    /// a parser-register mismatch seen while a sequence is being collected; reported when the
    /// sequence dispatches, so that it can also be attributed to the function it corrupts
    deferred: Option<String>,
    /// a second real terminal that receives every call the way the history spells it (feed_str in
    /// one piece): the per-character differential must not be the only path that is watched
    pub vt2: avt::Vt,
    limited: bool,
    resized: bool,
    call_props: Vec<&'static str>,
    pub vt: avt::Vt,
    pub rp: avt::parser::Parser,
    pub pm: PModel,
    pub m: Model,
    since_full: usize,
}

impl Diff {
    pub fn new(h: &History) -> Diff {
        Diff { deferred: None, vt2: h.build(), limited: h.limit.is_some(), resized: false, call_props: Vec::new(), vt: h.build(), rp: avt::parser::Parser::new(), pm: PModel::new(), m: Model::new(h.cols, h.rows), since_full: 0 }
    }

    fn diverge(props: Vec<&'static str>, what: String) -> End {
        End::Diverged(Divergence { props, msg: what })
    }

    /// One character through all four machines.
    pub fn step(&mut self, ch: char, rep: &mut Report, focus: &dyn Fn(&F) -> bool) -> End {
        let st_before = self.pm.st;
        let (mf, act) = self.pm.feed_act(ch);
        let rf = self.rp.feed(ch);
        self.vt.feed(ch);
        rep.count("chars", 1);

        // ---- parser level (C03; C20 when the table says the character is swallowed) ----
        let rst = St::of(self.rp.state);
        if rst != self.pm.st {
            let mut props = vec!["C03"];
            if mf.is_none() {
                props.push("C20");
            }
            return Self::diverge(
                props,
                format!("parser state after {:?} in {:?}: real {:?}, table {:?}", ch, st_before, rst, self.pm.st),
            );
        }
        let dispatch = matches!(act, Act::EscDispatch | Act::CsiDispatch);
        let unspecified = dispatch && self.pm.unspecified;
        if unspecified {
            rep.count("convention_U5_unspecified_numbers", 1);
            // the numbers are not promised: only "no panic" and the next state are checked
            return End::Abandoned("U5");
        }
        let rfm = rf.as_ref().map(conv);
        if self.pm.sgr_malformed {
            rep.count("convention_U6_malformed_sgr_colour", 1);
            match (&rfm, &mf) {
                (Some(F::Sgr(_)), Some(F::Sgr(_))) => return End::Abandoned("U6"),
                _ => return Self::diverge(vec!["C03", "C08"], format!("malformed SGR not dispatched as SGR: real {:?}", rfm)),
            }
        }
        if rfm != mf {
            let mut props = vec!["C03"];
            if mf.is_none() {
                props.push("C20");
            }
            if let Some(F::Sgr(_)) = mf {
                props.push("C08");
            }
            let earlier = self.deferred.take().map(|d| format!(" (earlier: {})", d)).unwrap_or_default();
            return Self::diverge(
                props,
                format!("parser output for {:?} in {:?}: real {:?}, table {:?}{}", ch, st_before, rfm, mf, earlier),
            );
        }
        if dispatch || self.pm.st == St::Ground {
            if let Some(d) = self.deferred.take() {
                return Self::diverge(vec!["C03"], d);
            }
        }

        // ---- terminal level ----
        match mf {
            Some(f) => {
                rep.count("functions", 1);
                for p in props_of(&f, true) {
                    if !self.call_props.contains(&p) {
                        self.call_props.push(p);
                    }
                }
                let in_focus = focus(&f);
                let (key, before) = if in_focus { (step_key(&self.m, &f), Some(scalars(&self.m))) } else { (0, None) };
                self.m.exec(&f, Some(&self.vt));
                if let Some(why) = self.m.lost {
                    rep.count("abandoned_unmodellable", 1);
                    return End::Abandoned(why);
                }
                let eff = self.m.eff;
                self.since_full += 1;
                let tail = if self.since_full >= 16 || eff.adopted {
                    self.since_full = 0;
                    usize::MAX
                } else {
                    eff.sb_push + eff.above_push + 1
                };
                let mut mis = compare_public(&self.vt, &self.m, tail);
                if mis.is_some() {
                    if let Some(c) = eff.conv {
                        self.m.apply_alt(c);
                        if compare_public(&self.vt, &self.m, tail).is_none() {
                            rep.count("convention_alt_taken", 1);
                            mis = None;
                        }
                    }
                }
                let vs = self.vt.verif_state();
                if mis.is_none() {
                    mis = compare_hidden(&vs, &self.m);
                }
                if mis.is_none() {
                    mis = compare_parser(&vs, &self.pm);
                }
                if let Some(mut mis) = mis {
                    let scrolled = eff.scroll_n > 0;
                    let mut props = refine(props_of(&f, scrolled), &mis);
                    if !self.m.alt && self.vt.lines().len() - self.m.rows != self.m.sb.len() && !props.contains(&"C06") {
                        // whatever else differs, the number of lines scrolled off the top is not what
                        // the scrolling rules give for this function (C06: "no other control function
                        // adds to the scrollback")
                        props.push("C06");
                        props.sort();
                        mis.msg = format!("{}; {} lines above the view, the scrolling rules give {}", mis.msg, self.vt.lines().len() - self.m.rows, self.m.sb.len());
                    }
                    if mis.kind == MisKind::HPending {
                        // the flag and the reported cursor disagree: show what that does to the next
                        // printable character (C04: "written into the cell under the cursor")
                        let c = self.vt.cursor();
                        if c.col < self.m.cols && c.col > 0 && focus(&F::Bs) {
                            // ... and to the next relative move (C05: "exactly the requested distance")
                            self.vt.feed('\x08');
                            let c2 = self.vt.cursor();
                            if (c2.col, c2.row) != (c.col - 1, c.row) {
                                props.push("C05");
                                props.sort();
                                props.dedup();
                                mis.msg = format!("{}; a following BS moves the cursor from ({},{}) to ({},{})", mis.msg, c.col, c.row, c2.col, c2.row);
                            }
                        } else if c.col < self.m.cols {
                            self.vt.feed('X');
                            let landed = self.vt.view()[c.row].cells().get(c.col).map(|cell| cell.char());
                            if landed != Some('X') {
                                props.push("C04");
                                props.sort();
                                props.dedup();
                                let c2 = self.vt.cursor();
                                mis.msg = format!("{}; a following 'X' is not written under the cursor ({},{}): that cell holds {:?}, cursor now ({},{})", mis.msg, c.col, c.row, landed, c2.col, c2.row);
                            }
                        }
                    }
                    return Self::diverge(props, format!("after {:?} (char {:?}): {}", f, ch, mis.msg));
                }
                if in_focus {
                    rep.count("focus_functions", 1);
                    if self.m.alt && !self.m.above.is_empty() {
                        rep.count("focus_functions_with_rows_above_alternate_view", 1);
                    }
                    if writes_cells(&f) || before != Some(scalars(&self.m)) || eff.scroll_n > 0 {
                        rep.key(key);
                    }
                    if eff.scroll_n > 0 {
                        let name = match (eff.scroll_down, eff.scroll_top == 0, eff.scroll_top + eff.scroll_range == self.m.rows) {
                            (true, _, _) => "scroll_down",
                            (false, true, true) => "scroll_up_whole_view",
                            (false, true, false) => "scroll_up_top_anchored",
                            (false, false, _) => "scroll_up_inner",
                        };
                        rep.count(name, 1);
                    }
                    if eff.sb_push > 0 {
                        rep.count("scrollback_lines_pushed", eff.sb_push as u64);
                    }
                    if eff.wrapped {
                        rep.count("auto_wraps", 1);
                    }
                    if eff.conv.is_some() {
                        rep.count("convention_points", 1);
                    }
                }
            }
            None => {
                // the character produced no function: nothing observable may change (C20), and the
                // parser registers must match the table's
                let c = self.vt.cursor();
                let vs = self.vt.verif_state();
                let mut mis = None;
                if (c.col, c.row, c.visible) != (self.m.col, self.m.row, self.m.visible) {
                    mis = Some(Mismatch { kind: MisKind::Cursor, msg: format!("cursor moved to ({},{})", c.col, c.row) });
                }
                if mis.is_none() {
                    mis = compare_hidden(&vs, &self.m);
                }
                if mis.is_none() {
                    mis = compare_parser(&vs, &self.pm);
                }
                if let Some(mis) = mis {
                    if mis.kind == MisKind::HParser && matches!(self.pm.st, St::Escape | St::EscInt | St::CsiEntry | St::CsiParam | St::CsiInt) {
                        // keep going until the sequence dispatches: the corrupted registers then
                        // show up in a function, which decides the further attribution
                        if self.deferred.is_none() {
                            self.deferred = Some(format!("after {:?} in {:?}: {}", ch, st_before, mis.msg));
                        }
                        return End::Ok;
                    }
                    let props = if mis.kind == MisKind::HParser { vec!["C03"] } else { vec!["C20"] };
                    return Self::diverge(props, format!("after inert char {:?} in {:?}: {}", ch, st_before, mis.msg));
                }
            }
        }
        End::Ok
    }
}

impl Diff {
    /// the call-level twin: same call through feed_str on the second terminal, compared with the model
    fn twin_call(&mut self, call: &Call, what: &str) -> End {
        if let Call::Resize(..) = call {
            self.resized = true;
        }
        if self.limited && self.resized {
            // under a finite limit feed() (never trims) and feed_str (trims per call) legitimately
            // retain different amounts of scrollback, which a taller resize makes visible: from the
            // first resize on the twin is only comparable under unlimited scrollback (C12/C14 cover
            // finite limits across resizes)
            match call {
                Call::FeedStr(s) => drop(self.vt2.feed_str(s)),
                Call::Feed(s) => s.chars().for_each(|ch| self.vt2.feed(ch)),
                Call::Resize(c, r) => drop(self.vt2.resize(*c, *r)),
            }
            self.call_props.clear();
            return End::Ok;
        }
        match call {
            Call::FeedStr(s) => drop(self.vt2.feed_str(s)),
            Call::Feed(s) => s.chars().for_each(|ch| self.vt2.feed(ch)),
            Call::Resize(c, r) => drop(self.vt2.resize(*c, *r)),
        }
        // feed_str and resize trim when they return, feed() never does
        let above = if let Call::Feed(_) = call { Above::Newest } else { Above::Nothing };
        let mut mis = compare_public_opt(&self.vt2, &self.m, usize::MAX, self.limited, above);
        if mis.is_none() {
            mis = compare_hidden(&self.vt2.verif_state(), &self.m);
        }
        if let Some(mis) = mis {
            let mut props = vec!["C12"];
            props.extend(self.call_props.iter().copied());
            let props = refine(props, &mis);
            return Self::diverge(props, format!("{}: the same call through feed_str (per-character feed() agrees with the model): {}", what, mis.msg));
        }
        self.call_props.clear();
        End::Ok
    }

    fn full_compare(&mut self, what: &str) -> End {
        self.since_full = 0;
        if let Some(mis) = compare_public(&self.vt, &self.m, usize::MAX) {
            // only reachable through characters that produced no function (every function step is
            // compared on its own), or through a late scrollback difference
            let props = if mis.kind == MisKind::Scrollback { vec!["C06"] } else { vec!["C20"] };
            return Self::diverge(props, format!("{}: {}", what, mis.msg));
        }
        End::Ok
    }

    pub fn resize(&mut self, cols: usize, rows: usize, rep: &mut Report) -> End {
        // normalise: `feed` (unlike `feed_str`) never trims, a resize is always preceded by a trim
        drop(self.vt.feed_str(""));
        self.m.above.clear();
        let (oc, or) = (self.m.cols, self.m.rows);
        drop(self.vt.resize(cols, rows));
        self.m.resize(cols, rows, &self.vt);
        rep.count("resizes", 1);
        if self.m.alt {
            rep.count("resizes_on_alternate_screen", 1);
            // the alternate screen keeps no scrollback: whatever a resize pushed above the view is gone
            // when the call returns
            let n = self.vt.lines().len();
            if n != rows {
                return Self::diverge(vec!["C06", "C13"], format!("after resize {}x{} -> {}x{} on the alternate screen lines() holds {} lines, rows = {}", oc, or, cols, rows, n, rows));
            }
        }
        let vs = self.vt.verif_state();
        if let Some(mis) = compare_hidden(&vs, &self.m) {
            let props = match mis.kind {
                MisKind::HTabs => vec!["C18"],
                MisKind::HMargins => vec!["C05", "C06"],
                MisKind::HSaved => vec!["C17"],
                _ => vec!["C02"],
            };
            return Self::diverge(props, format!("after resize {}x{} -> {}x{}: {}", oc, or, cols, rows, mis.msg));
        }
        End::Ok
    }
}

/// Run one history through the differential monitor.
pub fn run_history(h: &History, rep: &mut Report, focus: &dyn Fn(&F) -> bool) -> End {
    let mut d = Diff::new(h);
    for (i, call) in h.calls.iter().enumerate() {
        match call {
            Call::FeedStr(s) | Call::Feed(s) => {
                for ch in s.chars() {
                    match d.step(ch, rep, focus) {
                        End::Ok => {}
                        e => return e,
                    }
                }
                match d.full_compare(&format!("at the end of call {}", i)) {
                    End::Ok => {}
                    e => return e,
                }
                match d.twin_call(call, &format!("call {}", i)) {
                    End::Ok => {}
                    e => return e,
                }
            }
            Call::Resize(c, r) => {
                match d.resize(*c, *r, rep) {
                    End::Ok => {}
                    e => return e,
                }
                match d.twin_call(call, &format!("call {} (resize)", i)) {
                    End::Ok => {}
                    e => return e,
                }
            }
        }
    }
    if let Some(d) = d.deferred.take() {
        return Diff::diverge(vec!["C03"], d);
    }
    // hook vs public API: the soft-wrap mark read through the hook is what TextUnwrapper sees
    for (i, l) in d.vt.lines().iter().enumerate() {
        let public = TextUnwrapper::new().push(l).is_none();
        if public != l.verif_wrapped() {
            return Diff::diverge(vec!["C02"], format!("line {}: TextUnwrapper sees wrapped={}, hook {}", i, public, l.verif_wrapped()));
        }
    }
    End::Ok
}

pub fn describe(h: &History, d: &Divergence) -> String {
    format!("{} | input {}", d.msg, esc(&h.all_text()).chars().take(300).collect::<String>())
}
