mod calls;
mod cmp;
mod diff;
mod gen;
mod hist;
mod logical;
mod model;
mod mon;
mod report;
mod rng;
mod run;
mod snap;
mod workloads;

use report::Report;
use run::{CheckSpec, Ctx, Gate};

const DIFF_RULE: &str = "Each evaluation is one history (terminal size + scrollback limit + list of feed/resize calls) run character by character through the real Vt, a stand-alone real Parser, the table-driven reference parser and the reference terminal; model and real terminal are compared after every dispatched function (cursor, every visible cell/pen/soft-wrap mark, scrollback, hooked modes/margins/tabs/saved contexts/parser registers). Histories come from G1 (seeded grammar streams), G2 (ALL sequences of k atoms of the property's alphabet on 13 tiny sizes) and G3 (content x margins x modes x every cursor position x command x parameter class). distinct_nontrivial counts distinct abstract situations (function kind, parameter class vs the relevant edge, column class incl. wrap-pending, row vs region, margin shape, origin/auto-wrap/insert/charset/screen/new-line/pen-class flags, row marked?, size class) in which a function governed by this property was executed and changed state or wrote cells.";

const C03_RULE: &str = "(1) Parser table: every one of the 14 states, each entered through 2-4 (quick) / 5-8 (thorough) different backgrounds (fresh; after parameters / sub-parameters / intermediates; after an aborted sequence that filled all 32x6 slots), x ALL 1,112,064 Unicode scalar values, followed by a flush suffix whose dispatch exposes whatever was collected: returned function (full equality incl. parameters), next state and the hooked parameter registers are compared with the table-driven reference parser - this sub-space is enumerated completely. (2) dispatch product finals 0x40-0x7E x {none,?,!,<,=,>,0x20-0x2F} x 12 parameter shapes x 7/8-bit CSI, all ESC finals x intermediates, C1 twins. (3) memorylessness: all ordered pairs (anything, complete sequence) of a 110/79-entry pool and sampled triples against a fresh parser. (4) G1/G6 streams compared function by function in the differential monitor. evaluations = table pairs + sequences + pairs + stream histories; distinct_nontrivial = distinct (state, byte class [37 classes], background) + dispatch shapes + pairs.";

const C20_RULE: &str = "Before/after monitor on one real terminal: (a) every CSI final x {none,?,<,=,>,0x20-0x2F} x 7 parameter shapes x 7/8-bit, every ESC final x intermediate, every C0/C1, every string kind x introducer form x terminator form x 8 payloads - each kept only if the REFERENCE dispatch table yields no function for it - on 6 prior states, via feed_str and via feed(); (b) random G1 prior histories (both screens, resizes, all limits) followed by random control strings (payloads up to 4096 chars over printable ASCII, non-ASCII, C0 minus CAN/SUB/ESC) and unimplemented sequences. After each sequence: Changes.lines empty, no scrollback handed out, view/lines/cursor/cursor-key mode/dump() and every hooked hidden field (modes, margins, tabs, saved contexts, parser registers and state = ground) identical to before. (c) differential monitor over string-heavy streams. distinct_nontrivial = distinct (introducer, second char, terminator, length class, payload class, prior-state class).";

const C02_RULE: &str = "After EVERY public call (feed_str / feed / resize; Changes consumed, partially consumed or dropped at random) of every history the monitor asserts through the public API: size() = last requested, view().len() = rows, view() is the tail slice of lines() (pointer identity), every line has cols cells, lines().len() >= rows, last line not soft-wrapped (TextUnwrapper), cursor row < rows, col <= cols, line(n) = view()[n], Changes.lines strictly increasing and < rows; through the hook: pending_wrap <=> col == cols, buffer geometry = terminal geometry, margins/tabs/dirty rows/active saved cursor inside the screen, inactive buffer self-consistent. Histories: G1 with 28% resizes and boosted alternate-screen/save-restore tokens on 1x1..12x7 and 1x1..60x20, and ALL sequences of 3 calls over 53 atoms (6 of them resizes) on tiny screens. The clause 'col == cols only by printing in the last column with auto-wrap on' is decided by the per-character differential run (the model enters that position only that way). distinct_nontrivial = distinct (call kind / resize direction, limit class, screen before+after, wrap-pending, scrollback present, size class, inactive buffer stale?).";
const C13_RULE: &str = "After every feed_str / resize call (Changes consumed / partially consumed / dropped at random) lines().len() <= rows + L + L/10, = rows for L = 0, = rows while the alternate screen shows. Histories: long G1 sessions (4-30 calls x 2-12 tokens, text/LF heavy, alt excursions, 10% resizes) under L in {0,1,2,9,10,11,25,100,1000}; bulk sessions (10-3000 lines in ONE call, narrowing/widening resize chains, alt excursions with resizes). Hook invariant after every call: the threshold beyond which the primary buffer trims never exceeds L + L/10 (a lower one keeps the bound) and the alternate buffer's is 0. Large limits: ~22,000 (thorough ~400,000) limits - all of 0..2048, k*10^j +- {0,1,5,9}, 2^j +- 1 up to 2^26, random up to 2^26 - are built on a 1x1 screen and the threshold read back through the hook; a threshold that is too high is then produced for real (exactly that many line feeds, lines() counted). Thorough: 32 sessions that fill a limit of 1-4 million. distinct_nontrivial = distinct (L, handling, call kind, screen, trimmed?, drained-amount class) + limit classes of the sweep.";
const C15_RULE: &str = "Around every feed_str / resize call the visible rows are snapshotted; every row (present before and after) whose cells differ must be in Changes.lines of that call. Histories: G1 (half of them split into one function per call) incl. both screens, RIS, DECSTR, resize; ALL sequences of 3 calls over a 54-atom alphabet. Gates: every cell-mutating function kind was seen >= 500 times as the only function of a call that changed rows. distinct_nontrivial = distinct (first function kind, changed-rows pattern, screen, functions in call, size class) among calls that changed at least one row.";

fn spec(prop: &str) -> CheckSpec {
    let p: &'static str = Box::leak(prop.to_string().into_boxed_str());
    let mut rule = DIFF_RULE;
    let mut gates = vec![];
    let mut exhaustive = false;
    match prop {
        "C03" => {
            rule = C03_RULE;
            exhaustive = true;
            gates.push(Gate { counter: "table_state_scalar_pairs", min_quick: 38 * 1_112_064, min_thorough: 87 * 1_112_064 });
            gates.push(Gate { counter: "memoryless_pairs", min_quick: 8000, min_thorough: 8000 });
            gates.push(Gate { counter: "dispatch_sequences", min_quick: 30_000, min_thorough: 30_000 });
            gates.push(Gate { counter: "functions", min_quick: 100_000, min_thorough: 1_000_000 });
        }
        "C20" => {
            rule = C20_RULE;
            gates.push(Gate { counter: "inert_sequences_checked", min_quick: 20_000, min_thorough: 400_000 });
            gates.push(Gate { counter: "enumerated_inert_sequences", min_quick: 10_000, min_thorough: 10_000 });
        }
        "C01" => {
            rule = "Every public call of every history runs under catch_unwind in a build with overflow checks and debug assertions on (thorough: the same workload again in the plain release build); after every call EVERY read-only public operation is exercised (dump, text, view, lines, line(n), cursor, size, Line::cells/chars/text/chunks with four predicates incl. adversarial ones, Debug, Cell::width) and the history is replayed through util::TextCollector (feed_str/resize/flush). A worker process that dies (abort, stack overflow) or stops returning is re-run unit by unit in fresh processes; only a reproducible death or non-return is a violation. Work-proportionality: a call whose thread CPU time exceeds 0.25 s is compared with 200x the calibrated cost of the work it requests (characters, REP counts, screen area, retained lines); a breach confirmed by the minimum of three isolated re-runs and > 0.5 s is a violation. Workload: G1 streams with 6% parameters > 65535, > 32 parameters, > 6 sub-parameters, count-65535 commands, 1-64 KiB scalar soup (G6), 14% resizes between arbitrary sizes, sizes 1x1..40x12 (thorough ..512x128, 4096x1, 1x4096), limits unlimited/0/1/2/9/10/11/25/100/1000/100000, Changes consumed/partially consumed/dropped; one unit in 5000 is a deep re-wrap (one logical line of 60,000-300,000 characters wrapped on a 1-3 column screen, then resized in one call to a width of 10^4-10^5 and back to a third of it); plus ALL sequences of 3 calls over a 54-atom alphabet. distinct_nontrivial = distinct (call kind, limit class, cols class, rows class, parser state at call start, parameters beyond the promised range?).";
            gates.push(Gate { counter: "calls", min_quick: 200_000, min_thorough: 2_000_000 });
        }
        "C02" => {
            rule = C02_RULE;
            gates.push(Gate { counter: "calls", min_quick: 100_000, min_thorough: 1_000_000 });
            gates.push(Gate { counter: "resizes_on_alternate_screen", min_quick: 1000, min_thorough: 10_000 });
        }
        "C09" => {
            rule = "Oracle computed from the input itself: for a text of printable characters (ASCII, Latin-1, CJK, Unicode spaces, combining/zero-width, emoji, DEL) and CR LF breaks, text() (trailing empty lines stripped, lines compared modulo trailing Unicode white space) must equal the input lines, and TextUnwrapper over lines() must give the same; every text is run at two widths. Line lengths are drawn around k*cols-1, k*cols, k*cols+1, 0, lines of spaces, trailing spaces; every width of the tier (1..40 quick, 1..120 thorough) is visited in turn, heights 1..12 (1..40). distinct_nontrivial = distinct (line length mod cols class, rows spanned, scrolled?, width, height class).";
            gates.push(Gate { counter: "texts_that_scrolled", min_quick: 10_000, min_thorough: 100_000 });
            gates.push(Gate { counter: "texts_with_wrapped_lines", min_quick: 10_000, min_thorough: 100_000 });
        }
        "C10" => {
            rule = "Relational monitor around every resize() on the primary screen (unlimited scrollback): logical lines (cells with pens joined over soft-wrap marks, trailing blanks stripped) above the cursor's line unchanged; cursor stays in its logical line, text before it intact, same offset when it was on a character (wrap-pending = last column); lines from the cursor's on are unchanged or (last surviving one) cut short, never altered/reordered/invented. Contents come from arbitrary G1 histories without alternate-screen tokens (marks set and cleared by editing, coloured blanks, cursor anywhere) followed by chains of 1-6 resizes between sizes 1..14x1..8 and up to 40x12 (200x60 thorough), interleaved with more input. distinct_nontrivial = distinct (width change x height change, cursor on char / in blanks / wrap-pending, rows spanned by the cursor's line, scrollback present, old width class).";
            gates.push(Gate { counter: "resizes_checked", min_quick: 100_000, min_thorough: 1_000_000 });
            gates.push(Gate { counter: "resizes_with_cursor_on_a_character", min_quick: 5_000, min_thorough: 50_000 });
        }
        "C11" => {
            rule = "Two real terminals side by side: the original (arbitrary G1 history incl. resizes, both screens, all modes/margins/tabs/charsets/pens/saved contexts, cut at a random character - also inside ESC/CSI/DCS/OSC sequences and parameter lists) and a fresh terminal of the same size fed orig.dump(). Compared right after restoring and after EVERY continuation call (the remainder of the cut input, then one of 4 probe scripts whose steps each expose one hidden component, or a random G1 continuation): visible cells/pens/soft-wrap marks, cursor position/visibility, cursor-key mode, the dump() string and the hooked hidden state (scrollback excluded). Thorough/quick also try EVERY cut position of short histories, and the 2112-state enumeration of the 'restore saved cursor, then move relatively' dump branch on 6x8. A divergence whose dump-time state satisfies a known-finding predicate (C11-a/b/c, KNOWN_FINDINGS.txt) is filed as that finding, any other is a violation. distinct_nontrivial = distinct (parser state at the cut, modes bitset, margin shape, saved contexts set, tabs customised, in a known-finding state?).";
            gates.push(Gate { counter: "round_trips", min_quick: 40_000, min_thorough: 500_000 });
            gates.push(Gate { counter: "dumps_with_parser_inside_a_sequence", min_quick: 5_000, min_thorough: 50_000 });
            gates.push(Gate { counter: "dumps_on_alternate_screen", min_quick: 3_000, min_thorough: 30_000 });
        }
        "C12" => {
            rule = "Three or more real terminals per case: the same string fed by one feed_str, by feed() per character and by several random splittings (and, for 12 short inputs, by EVERY subset of cut points) must end with identical view(), cursor(), cursor-key mode, dump() and hooked hidden state, and - unlimited scrollback - identical lines(); while the alternate screen shows or under a finite limit a normalising feed_str(\"\") precedes the comparison (feed() never trims). distinct_nontrivial = distinct (parser state at a cut point, limit class, parameter / sub-parameter count at the cut).";
            gates.push(Gate { counter: "chunkings_compared", min_quick: 50_000, min_thorough: 500_000 });
        }
        "C14" => {
            rule = "Two executions per session: limit L (Changes fully consumed, input in its original calls) vs unlimited (input in one call). concat(all Changes.scrollback) ++ lines() under L must equal lines() of the unlimited twin as sequences of (cells with pens, soft-wrap mark). util::TextCollector output under (L, original chunking) must equal (unlimited, one chunk) modulo trailing empty strings. Sessions: G1 without RIS/resize, alt excursions, scroll regions, DL/IL, ending on the primary screen; L in {0,1,2,9,10,11,25,100,1000}. distinct_nontrivial = distinct (L, lines handed out class, excursion present, wrapped lines present, rows class).";
            gates.push(Gate { counter: "sessions_that_handed_out_lines", min_quick: 5_000, min_thorough: 50_000 });
            gates.push(Gate { counter: "trim_inside_a_wrapped_logical_line", min_quick: 200, min_thorough: 2_000 });
        }
        "C16" => {
            rule = "Per case: a G1 primary history (scrollback, saved cursor, any cursor place, all limits), then enter (47/1047/1049 as its own call), an excursion of G1 input filtered by the reference parser to contain no leave sequence and no RIS (re-entering with another mode number allowed), in half of the cases interleaved with resizes and cursor moves, then leave with a possibly different mode number. Checked: entry screen blank in the pen current at entry; text() identical after every excursion call and primary lines() (cells, pens, marks) identical after return while the size is unchanged; nothing handed out during the excursion; C02 geometry invariants after every call; 1049/1049 restores the cursor; after a resized excursion the logical lines are only re-wrapped / cut short at the end and a 1049 cursor that was on a character is on the same character. Plus the differential monitor rows for the switch itself. distinct_nontrivial = distinct (enter mode, leave mode, resized, limit class, wrap-pending at entry, scrollback present, size changed).";
            gates.push(Gate { counter: "resized_excursions", min_quick: 5_000, min_thorough: 50_000 });
            gates.push(Gate { counter: "merged_entries_with_a_trim_pending_on_the_parked_primary", min_quick: 2_000, min_thorough: 20_000 });
            gates.push(Gate { counter: "resized_1049_excursions_with_cursor_on_a_character", min_quick: 300, min_thorough: 3_000 });
        }
        "C19" => {
            rule = "Real-vs-fresh: after an arbitrary G1 history (resizes, alternate screen, customised modes/margins/tabs/charsets/pens/saved contexts) and an input that parks the parser in each of the 14 states in turn, ESC c is fed; the terminal is then compared with a freshly built one of the current size and same limit: view, lines, cursor, cursor-key mode, dump() string and every hooked hidden field; then a continuation (one of 3 probe scripts that expose each hidden component, or a random G1 continuation incl. resizes) is fed to both and everything is compared after each call. A scenario product resets while the parked primary screen is stale (3 ways of entering the alternate screen x 7 width changes x 7 height changes x 4 amounts of primary scrollback x 5 sizes x one or two resizes). distinct_nontrivial = distinct (parser state before ESC c, set of non-default hidden components before the reset).";
            gates.push(Gate { counter: "resets_checked", min_quick: 20_000, min_thorough: 200_000 });
            gates.push(Gate { counter: "resets_on_alternate_screen", min_quick: 1_000, min_thorough: 10_000 });
            gates.push(Gate { counter: "resets_with_cursor_key_mode_set", min_quick: 300, min_thorough: 3_000 });
            gates.push(Gate { counter: "resets_with_stale_parked_primary_screen", min_quick: 5_000, min_thorough: 40_000 });
        }
        "C13" => {
            rule = C13_RULE;
            gates.push(Gate { counter: "calls_that_trimmed", min_quick: 5000, min_thorough: 50_000 });
            gates.push(Gate { counter: "calls_on_alternate_screen", min_quick: 1000, min_thorough: 10_000 });
            gates.push(Gate { counter: "limits_read_back_through_the_hook", min_quick: 20_000, min_thorough: 300_000 });
        }
        "C15" => {
            rule = C15_RULE;
            gates.push(Gate { counter: "calls_with_changed_rows", min_quick: 50_000, min_thorough: 500_000 });
            for k in ["Print", "Lf", "Ri", "Su", "Sd", "Il", "Dl", "Ed", "El", "Ech", "Ich", "Dch", "Decaln", "Rep", "Decset", "Decrst", "Ris", "Resize"] {
                let name: &'static str = Box::leak(format!("changed_by[{}]", k).into_boxed_str());
                gates.push(Gate { counter: name, min_quick: 500, min_thorough: 500 });
            }
        }
        _ => {
            gates.push(Gate { counter: "focus_functions", min_quick: 10_000, min_thorough: 100_000 });
        }
    }
    if prop == "C06" {
        for c in ["scroll_up_whole_view", "scroll_up_top_anchored", "scroll_up_inner", "scroll_down", "scrollback_lines_pushed"] {
            gates.push(Gate { counter: c, min_quick: 1000, min_thorough: 10_000 });
        }
    }
    if prop == "C04" {
        gates.push(Gate { counter: "auto_wraps", min_quick: 1000, min_thorough: 10_000 });
    }
    CheckSpec {
        prop: p,
        rule,
        assumptions: &[
            "the reference model (harness/src/model) is a faithful reading of the property statements; conventions U1-U9 (DESIGN 3.3) accept either outcome where the properties are silent",
            "the read-only hook Vt::verif_state() reports the hidden fields truthfully",
            "resize content (re-wrapped cells, cursor) is adopted from the real terminal and judged by C02/C10/C16, not here",
        ],
        gates,
        watchdog: (240, 5400),
        exhaustive,
    }
}

fn worker(ctx: &Ctx, rep: &mut Report, status: Option<&str>) {
    match ctx.prop.as_str() {
        "C01" => mon::c01::work(ctx, rep, status),
        "C01miri" => mon::c01::work_miri(ctx, rep),
        "C04" | "C05" | "C06" | "C07" => mon::diffmon::work(ctx, rep, (30_000, 1_000_000), (3, 4), true),
        "C08" | "C17" | "C18" => mon::diffmon::work(ctx, rep, (40_000, 2_000_000), (3, 4), false),
        "C03" => mon::c03::work(ctx, rep),
        "C20" => mon::c20::work(ctx, rep),
        "C02" => mon::callmon::work_c02(ctx, rep),
        "C09" => mon::relmon::work_c09(ctx, rep),
        "C11" => mon::c11::work(ctx, rep),
        "C10" => mon::relmon::work_c10(ctx, rep),
        "C12" => mon::relmon::work_c12(ctx, rep),
        "C14" => mon::relmon::work_c14(ctx, rep),
        "C16" => mon::relmon::work_c16(ctx, rep),
        "C19" => mon::relmon::work_c19(ctx, rep),
        "C13" => mon::callmon::work_c13(ctx, rep),
        "C15" => mon::callmon::work_c15(ctx, rep),
        other => rep.inconclusive(format!("no monitor for {}", other)),
    }
}

/// Re-execute one recorded history under the monitor of its property.
fn replay(prop: &str, h: &hist::History, rep: &mut Report) {
    use mon::{callmon, relmon};
    match prop {
        "C02" => {
            callmon::c02_history(h, 1, rep);
            mon::diffmon::run_one(prop, h, rep);
        }
        "C01" => {
            if h.calls.len() > 1000 && h.limit.is_some() {
                mon::c01::calibrate_here();
                mon::c01::c01_steady(h, rep);
            } else {
                for s in 0..4 {
                    mon::c01::c01_history(h, s, rep);
                }
            }
        }
        "C09" => relmon::c09_history(h, rep),
        "C11" => mon::c11::c11_history(h, rep),
        "C10" => relmon::c10_history(h, rep),
        "C12" => relmon::c12_history(h, rep),
        "C13" => {
            // the Changes handling is random per call: try several handling seeds
            for s in 0..32 {
                callmon::c13_history(h, s, rep);
            }
        }
        "C14" => relmon::c14_history(h, rep),
        "C15" => callmon::c15_history(h, rep),
        "C16" => {
            if h.meta_get("merged_at").is_some() {
                relmon::c16_merged_history(h, rep)
            } else if h.meta_get("enter_at").is_some() {
                relmon::c16_history(h, rep)
            } else {
                mon::diffmon::run_one(prop, h, rep)
            }
        }
        "C19" => {
            if h.meta_get("ris_at").is_some() {
                relmon::c19_history(h, rep)
            } else {
                mon::diffmon::run_one(prop, h, rep)
            }
        }
        "C20" => {
            mon::c20::replay(h, rep);
            mon::diffmon::run_one(prop, h, rep);
        }
        _ => mon::diffmon::run_one(prop, h, rep),
    }
}

fn main() {
    let args: Vec<String> = std::env::args().collect();
    run::install_panic_hook();
    if args.len() >= 8 && args[1] == "--worker" {
        let ctx = Ctx {
            prop: args[2].clone(),
            thorough: args[3] == "thorough",
            seed: args[4].parse().unwrap(),
            shard: args[5].parse().unwrap(),
            nshards: args[6].parse().unwrap(),
        };
        let mut rep = Report::new();
        let status = format!("{}.cur", args[7]);
        worker(&ctx, &mut rep, Some(&status));
        std::fs::write(&args[7], rep.to_text()).expect("write report");
        return;
    }
    if args.len() >= 7 && args[1] == "--single" {
        // one C01 work unit in a process of its own (isolation of aborts / non-returning calls)
        let ctx = Ctx { prop: args[2].clone(), thorough: args[3] == "thorough", seed: args[4].parse().unwrap(), shard: 0, nshards: 1 };
        let u: usize = args[5].parse().unwrap();
        let h = mon::c01::unit_history(&ctx, u);
        std::fs::write(&args[6], h.to_text()).expect("write history");
        let mut rep = Report::new();
        mon::c01::c01_history(&h, rng::mix(ctx.seed, u as u64), &mut rep);
        let mut t = h.to_text();
        t.push_str("OK\n");
        t.push_str(&rep.to_text());
        std::fs::write(&args[6], t).expect("write result");
        return;
    }
    if args.len() < 3 {
        eprintln!("usage: avt_verif <Cxx> <quick|thorough> | avt_verif <Cxx> --replay <file>");
        std::process::exit(2);
    }
    let prop = args[1].clone();
    let known = prop.len() == 3 && prop.starts_with('C') && prop[1..].parse::<u32>().map(|n| (1..=20).contains(&n)).unwrap_or(false);
    if !known || (args[2] == "--replay" && args.len() < 4) {
        eprintln!("usage: avt_verif <C01..C20> <quick|thorough> | avt_verif <Cxx> --replay <file>");
        std::process::exit(2);
    }
    let seed: u64 = std::env::var("VERIF_SEED").ok().and_then(|s| s.parse().ok()).unwrap_or(1);
    if args[2] == "--replay" {
        let (p, h) = run::load_replay(&args[3]).expect("cannot read replay file");
        let mut rep = Report::new();
        replay(&p, &h, &mut rep);
        for v in &rep.violations {
            println!("VIOLATION property={} replay={}\n  {}", v.prop, args[3], v.msg);
        }
        for (k, (n, e)) in &rep.known {
            println!("KNOWN-FINDING: property={} {} x{} {}", p, k, n, e);
        }
        for i in &rep.inconclusive {
            println!("INCONCLUSIVE: {}", i);
        }
        if rep.violations.is_empty() {
            println!("replay of {} for {}: no violation", args[3], p);
        }
        std::process::exit(if rep.violations.is_empty() { 0 } else { 1 });
    }
    let tier = std::env::var("VERIF_TIER").ok().filter(|t| t == "quick" || t == "thorough").unwrap_or_else(|| args[2].clone());
    let code = run::supervise(&spec(&prop), tier == "thorough", seed, None);
    std::process::exit(code);
}
