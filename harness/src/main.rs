mod cmp;
mod diff;
mod gen;
mod hist;
mod model;
mod mon;
mod report;
mod rng;
mod run;
mod workloads;

use report::Report;
use run::{CheckSpec, Ctx, Gate};

const DIFF_RULE: &str = "Each evaluation is one history (terminal size + scrollback limit + list of feed/resize calls) run character by character through the real Vt, a stand-alone real Parser, the table-driven reference parser and the reference terminal; model and real terminal are compared after every dispatched function (cursor, every visible cell/pen/soft-wrap mark, scrollback, hooked modes/margins/tabs/saved contexts/parser registers). Histories come from G1 (seeded grammar streams), G2 (ALL sequences of k atoms of the property's alphabet on 13 tiny sizes) and G3 (content x margins x modes x every cursor position x command x parameter class). distinct_nontrivial counts distinct abstract situations (function kind, parameter class vs the relevant edge, column class incl. wrap-pending, row vs region, margin shape, origin/auto-wrap/insert/charset/screen/new-line/pen-class flags, row marked?, size class) in which a function governed by this property was executed and changed state or wrote cells.";

fn spec(prop: &str) -> CheckSpec {
    let p: &'static str = Box::leak(prop.to_string().into_boxed_str());
    let mut gates = vec![Gate { counter: "focus_functions", min_quick: 10_000, min_thorough: 100_000 }];
    if prop == "C06" {
        for c in ["scroll_up_whole_view", "scroll_up_top_anchored", "scroll_up_inner", "scroll_down", "scrollback_lines_pushed"] {
            gates.push(Gate { counter: c, min_quick: 1000, min_thorough: 10_000 });
        }
    }
    if prop == "C04" {
        gates.push(Gate { counter: "auto_wraps", min_quick: 1000, min_thorough: 10_000 });
    }
    CheckSpec {
        prop: p,
        rule: DIFF_RULE,
        assumptions: &[
            "the reference model (harness/src/model) is a faithful reading of the property statements; conventions U1-U6 (DESIGN 3.3) accept either outcome where the properties are silent",
            "the read-only hook Vt::verif_state() reports the hidden fields truthfully",
            "resize content (re-wrapped cells, cursor) is adopted from the real terminal and judged by C02/C10/C16, not here",
        ],
        gates,
        watchdog: (600, 3600),
        exhaustive: false,
    }
}

fn worker(ctx: &Ctx, rep: &mut Report) {
    match ctx.prop.as_str() {
        "C04" | "C05" | "C06" | "C07" => mon::diffmon::work(ctx, rep, (6000, 120_000), (3, 4), true),
        "C08" | "C17" | "C18" => mon::diffmon::work(ctx, rep, (8000, 150_000), (3, 4), false),
        other => rep.inconclusive(format!("no monitor for {}", other)),
    }
}

fn main() {
    let args: Vec<String> = std::env::args().collect();
    run::install_panic_hook();
    if args.len() >= 8 && args[1] == "--worker" {
        let ctx = Ctx {
            prop: args[2].clone(),
            thorough: args[3] == "thorough",
            seed: args[4].parse().unwrap(),
            shard: args[5].parse().unwrap(),
            nshards: args[6].parse().unwrap(),
        };
        let mut rep = Report::new();
        worker(&ctx, &mut rep);
        std::fs::write(&args[7], rep.to_text()).expect("write report");
        return;
    }
    if args.len() < 3 {
        eprintln!("usage: avt_verif <Cxx> <quick|thorough> | avt_verif <Cxx> --replay <file>");
        std::process::exit(2);
    }
    let prop = args[1].clone();
    let seed: u64 = std::env::var("VERIF_SEED").ok().and_then(|s| s.parse().ok()).unwrap_or(1);
    if args[2] == "--replay" {
        let (p, h) = run::load_replay(&args[3]).expect("cannot read replay file");
        let mut rep = Report::new();
        mon::diffmon::run_one(&p, &h, &mut rep);
        for v in &rep.violations {
            println!("VIOLATION property={} replay={}\n  {}", v.prop, args[3], v.msg);
        }
        std::process::exit(if rep.violations.is_empty() { 0 } else { 1 });
    }
    let tier = std::env::var("VERIF_TIER").ok().filter(|t| t == "quick" || t == "thorough").unwrap_or_else(|| args[2].clone());
    let code = run::supervise(&spec(&prop), tier == "thorough", seed, None);
    std::process::exit(code);
}
