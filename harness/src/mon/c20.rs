//! C20: control strings and unimplemented sequences are inert (before/after equality on one
//! terminal; what counts as unimplemented comes from the reference dispatch table).

use crate::gen::{self, Gen, Profile, T_RIS};
use crate::hist::{esc, Call, History};
use crate::model::parser::{PModel, St};
use crate::report::Report;
use crate::rng::{mix, Rng};
use crate::run::{guarded, Ctx, Guarded};
use crate::snap::{diff_hidden, hidden, Snap};
use avt::Vt;

/// true iff the reference parser, starting in ground, yields no function for any character of `s`
/// and is back in ground afterwards
pub fn model_inert(s: &str) -> bool {
    let mut pm = PModel::new();
    for ch in s.chars() {
        let (f, act) = pm.feed_act(ch);
        if f.is_some() {
            return false;
        }
        if matches!(act, crate::model::parser::Act::EscDispatch | crate::model::parser::Act::CsiDispatch) && pm.unspecified {
            return false; // not judged (numbers beyond the promised range, convention U7)
        }
    }
    pm.st == St::Ground
}

fn seq_key(s: &str, prior: u64) -> u64 {
    let mut it = s.chars();
    let a = it.next().map(|c| c as u64).unwrap_or(0);
    let b = it.next().map(|c| c as u64).unwrap_or(0);
    let last = s.chars().last().map(|c| c as u64).unwrap_or(0);
    let n = s.chars().count();
    let lenc = match n {
        0..=3 => 0,
        4..=8 => 1,
        9..=64 => 2,
        65..=512 => 3,
        _ => 4,
    };
    let pay = (s.chars().any(|c| c as u32 >= 0xa0) as u64) | (s.chars().skip(2).any(|c| (c as u32) < 0x20) as u64) << 1;
    // for CSI/ESC sequences the second char is the marker/final/first parameter: bucket it
    let b = if a == 0x1b { b } else { 0 };
    mix(mix(a * 131 + b, last * 8 + lenc * 4 + pay), prior)
}

fn prior_class(vt: &Vt) -> u64 {
    let h = vt.verif_state();
    (h.alternate_active as u64)
        | (h.origin_mode as u64) << 1
        | (h.pending_wrap as u64) << 2
        | (h.insert_mode as u64) << 3
        | ((h.top_margin > 0 || h.bottom_margin + 1 < h.rows) as u64) << 4
        | ((!h.auto_wrap_mode) as u64) << 5
}

/// Check one inert sequence on a terminal in whatever state it is in (parser in ground).
/// Returns a description of the first observable change.
pub fn check_inert(vt: &mut Vt, seq: &str, per_char: bool) -> Option<String> {
    check_inert_mode(vt, seq, if per_char { Feeding::PerChar } else { Feeding::Whole })
}

/// how the sequence reaches the terminal: one feed_str call, feed() per character, or feed_str calls
/// cut after the given number of characters (the string is then open across a call boundary)
#[derive(Clone, Copy, Debug, PartialEq)]
pub enum Feeding {
    Whole,
    PerChar,
    CutAfter(usize),
}

pub fn check_inert_mode(vt: &mut Vt, seq: &str, mode: Feeding) -> Option<String> {
    drop(vt.feed_str("")); // flush pending changed-line reports and trimming
    let before = Snap::of(vt);
    let hb = hidden(vt);
    let mut pieces: Vec<String> = Vec::new();
    match mode {
        Feeding::PerChar => {
            for ch in seq.chars() {
                vt.feed(ch);
            }
            pieces.push(String::new());
        }
        Feeding::Whole => pieces.push(seq.to_string()),
        Feeding::CutAfter(n) => {
            let n = n % seq.chars().count().max(1);
            pieces.push(seq.chars().take(n).collect());
            pieces.push(seq.chars().skip(n).collect());
        }
    }
    for piece in &pieces {
        let ch = vt.feed_str(piece);
        let lines = ch.lines.clone();
        let drained = ch.scrollback.count();
        if !lines.is_empty() {
            return Some(format!("rows {:?} reported changed", lines));
        }
        if drained != 0 {
            return Some(format!("{} scrollback lines handed out", drained));
        }
    }
    let after = Snap::of(vt);
    if let Some(d) = before.diff_all(&after) {
        return Some(d);
    }
    let ha = hidden(vt);
    if let Some(d) = diff_hidden(&hb, &ha) {
        return Some(d);
    }
    None
}

/// "Consumed completely" also means: no effect on any later input.  `vt` has received inert
/// sequences, `twin` is the same history without them; after a probe both must agree.
const PROBES: [&str; 8] = ["\u{9b}HX", "\x1b[HX", "\u{9b};mY", "\x1b[;;H\x1b[;mZ", "\u{9b}r\u{9b}BQ", "\x1b[Aq", "w\x1b[b", "\u{9b}?h\u{9b}lK"];

pub fn check_twin(vt: &mut Vt, twin: &mut Vt, probe: &str) -> Option<String> {
    drop(vt.feed_str(probe));
    drop(twin.feed_str(probe));
    let (a, b) = (Snap::of(vt), Snap::of(twin));
    if let Some(d) = a.diff_all(&b) {
        return Some(format!("after the probe {:?} the terminal differs from one that never saw the inert sequence(s): {}", esc(probe), d));
    }
    if let Some(d) = diff_hidden(&hidden(vt), &hidden(twin)) {
        return Some(format!("after the probe {:?}: {}", esc(probe), d));
    }
    None
}

fn enumerated() -> Vec<String> {
    let mut v = Vec::new();
    let shapes = ["", "0", "1", "2;3", "65535", ";", "1:2"];
    let mut prefixes: Vec<String> = vec!["".into(), "?".into(), "<".into(), "=".into(), ">".into()];
    for i in 0x20u32..=0x2f {
        prefixes.push(char::from_u32(i).unwrap().to_string());
    }
    for intro in ["\x1b[", "\u{9b}"] {
        for pre in &prefixes {
            for sh in shapes {
                for f in 0x40u32..=0x7e {
                    let fch = char::from_u32(f).unwrap();
                    let s = if pre.chars().next().map(|c| ('<'..='?').contains(&c)).unwrap_or(false) {
                        format!("{}{}{}{}", intro, pre, sh, fch)
                    } else {
                        format!("{}{}{}{}", intro, sh, pre, fch)
                    };
                    if model_inert(&s) {
                        v.push(s);
                    }
                }
            }
        }
    }
    // private marker + intermediate, two intermediates (CSI and ESC)
    for intro in ["\x1b[", "\u{9b}"] {
        for mk in ["?", "<", "=", ">", ""] {
            for i1 in 0x20u32..=0x2f {
                for i2 in [None, Some(0x20u32), Some(0x21), Some(0x24)] {
                    if mk.is_empty() && i2.is_none() {
                        continue;
                    }
                    for sh in ["", "25", "6;7"] {
                        for f in 0x40u32..=0x7e {
                            let mut s = format!("{}{}{}{}", intro, mk, sh, char::from_u32(i1).unwrap());
                            if let Some(i2) = i2 {
                                s.push(char::from_u32(i2).unwrap());
                            }
                            s.push(char::from_u32(f).unwrap());
                            if model_inert(&s) {
                                v.push(s);
                            }
                        }
                    }
                }
            }
        }
    }
    for i1 in 0x20u32..=0x2f {
        for i2 in 0x20u32..=0x2f {
            for f in 0x30u32..=0x7e {
                let s = format!("\x1b{}{}{}", char::from_u32(i1).unwrap(), char::from_u32(i2).unwrap(), char::from_u32(f).unwrap());
                if model_inert(&s) {
                    v.push(s);
                }
            }
        }
    }
    for inter in std::iter::once(String::new()).chain((0x20u32..=0x2f).map(|i| char::from_u32(i).unwrap().to_string())) {
        for f in 0x30u32..=0x7e {
            let s = format!("\x1b{}{}", inter, char::from_u32(f).unwrap());
            if model_inert(&s) {
                v.push(s);
            }
        }
    }
    for c in (0u32..0x20).chain(0x80..0xa0) {
        let s = char::from_u32(c).unwrap().to_string();
        if model_inert(&s) {
            v.push(s);
        }
    }
    // every string kind x introducer form x terminator form x a few payloads
    let payloads = ["", "x", "0;title with spaces", "8;;http://e.x/\u{e9}\u{4e16}", "\r\n\t\x08\x00\x1f", "1;2$q m;;\x7f", "\u{a0}\u{10ffff}", "[31mNOT A CSI[H",
        // characters whose low 8 / 16 bits are BEL, CAN, SUB, ESC, ST, CSI or a final: text, not controls
        "a\u{20007}b\u{2001b}c\u{2009c}d", "\u{1009b}2J\u{10018}x\u{1001a}y\u{10090}z", "\u{107}\u{11b}\u{19c}\u{49b}2J\u{418}", "\u{e007}\u{f01b}[H\u{ff9c}w"];
    for (i7, i8, osc) in [("\x1b]", "\u{9d}", true), ("\x1bP", "\u{90}", false), ("\x1bX", "\u{98}", false), ("\x1b^", "\u{9e}", false), ("\x1b_", "\u{9f}", false)] {
        for intro in [i7, i8] {
            for term in ["\x1b\\", "\u{9c}", "\x07"] {
                if term == "\x07" && !osc {
                    continue;
                }
                for p in payloads {
                    if osc && p.contains('\x07') {
                        continue;
                    }
                    let s = format!("{}{}{}", intro, p, term);
                    if model_inert(&s) {
                        v.push(s);
                    }
                }
            }
        }
    }
    v
}

fn prior_states() -> Vec<(usize, usize, &'static str)> {
    vec![
        (5, 3, ""),
        (5, 3, "abcdefg\x1b[2;3r\x1b[?6h\x1b[1;31m"),
        (4, 2, "abcd"), // wrap pending
        (6, 4, "xy\r\nz\x1b[?1049h\x1b[4h\x1b(0\x0eq\x1b[2;2H\x1b7"),
        (1, 1, "a"),
        (9, 2, "\x1b[3g\x1b[5G\x1bH\x1b[?7l\x1b[20habc\x1b[?25l\x1b[?1h"),
    ]
}

pub fn work(ctx: &Ctx, rep: &mut Report) {
    // (a) enumerated inert sequences x fixed prior states x {feed_str, per char}
    let seqs = enumerated();
    let priors = prior_states();
    let total = seqs.len() * priors.len();
    for u in ctx.units(total) {
        let (si, pi) = (u / priors.len(), u % priors.len());
        let (c, r, pre) = priors[pi];
        let mut h = History::new(c, r, Some(3));
        h.calls.push(Call::FeedStr(pre.to_string()));
        h.calls.push(Call::FeedStr(seqs[si].clone()));
        rep.evaluations += 1;
        let res = guarded(|| {
            let mut vt = h.build();
            drop(vt.feed_str(pre));
            let k = seq_key(&seqs[si], prior_class(&vt));
            let mode = match u % 3 {
                0 => Feeding::Whole,
                1 => Feeding::PerChar,
                _ => Feeding::CutAfter(1 + u / 3),
            };
            let mut r = check_inert_mode(&mut vt, &seqs[si], mode);
            if r.is_none() {
                let mut twin = h.build();
                drop(twin.feed_str(pre));
                r = check_twin(&mut vt, &mut twin, PROBES[u % PROBES.len()]);
            }
            (r, k)
        });
        match res {
            Guarded::Done((None, k)) => rep.key(k),
            Guarded::Done((Some(d), _)) => rep.violation("C20", format!("inert sequence {:?} changed the terminal: {}", esc(&seqs[si]), d), &h),
            Guarded::AvtPanic(..) => rep.count_s("foreign_divergence[C01]".into(), 1),
            Guarded::HarnessPanic(m, l) => rep.inconclusive(format!("harness panic at {}: {}", l, m)),
        }
    }
    if ctx.shard == 0 {
        rep.count("enumerated_inert_sequences", seqs.len() as u64);
        rep.sample(format!("enumerated: {:?} on each of {} prior states", esc(&seqs[seqs.len() / 2]), priors.len()));
    }
    // (b) random prior histories (G1, incl. resizes and both screens) followed by random inert sequences
    let n = ctx.scale(100_000, 4_000_000);
    let prof = Profile::general().with(T_RIS, 1);
    for u in ctx.units(n) {
        let mut r = Rng::derive(ctx.seed, &[0xC20, 2, u as u64]);
        let mut h = gen::history(&mut r, &prof);
        h.calls.push(Call::FeedStr("\x18".into())); // CAN: parser back to ground, executes nothing
        let mut cands = Vec::new();
        for _ in 0..6 {
            let mut g = Gen::new(&mut r, h.cols, h.rows);
            let s = match g.r.below(3) {
                0 => g.control_string(if u % 50 == 0 { 4096 } else { 200 }),
                _ => g.unimplemented(),
            };
            if model_inert(&s) {
                cands.push(s);
            } else {
                rep.count("candidates_the_reference_table_implements", 1);
            }
        }
        rep.evaluations += 1;
        let mode = match r.below(3) {
            0 => Feeding::PerChar,
            1 => Feeding::CutAfter(r.below(64)),
            _ => Feeding::Whole,
        };
        if let Feeding::CutAfter(_) = mode {
            rep.count("histories_with_inert_sequences_cut_across_two_calls", 1);
        }
        let hh = h.clone();
        let res = guarded(|| {
            let mut vt = hh.build();
            for c in &hh.calls {
                match c {
                    Call::FeedStr(s) => drop(vt.feed_str(s)),
                    Call::Feed(s) => s.chars().for_each(|ch| vt.feed(ch)),
                    Call::Resize(c, r) => drop(vt.resize(*c, *r)),
                }
            }
            let mut keys = Vec::new();
            for s in &cands {
                keys.push(seq_key(s, prior_class(&vt)));
                if let Some(d) = check_inert_mode(&mut vt, s, mode) {
                    return (Some((s.clone(), d)), keys);
                }
            }
            // the same history without the inert sequences
            let mut twin = hh.build();
            for c in &hh.calls {
                match c {
                    Call::FeedStr(s) => drop(twin.feed_str(s)),
                    Call::Feed(s) => s.chars().for_each(|ch| twin.feed(ch)),
                    Call::Resize(c, r) => drop(twin.resize(*c, *r)),
                }
            }
            drop(twin.feed_str(""));
            if let Some(d) = check_twin(&mut vt, &mut twin, PROBES[u % PROBES.len()]) {
                return (Some((cands.join(""), d)), keys);
            }
            (None, keys)
        });
        match res {
            Guarded::Done((None, keys)) => {
                rep.count("inert_sequences_checked", keys.len() as u64);
                for k in keys {
                    rep.key(k);
                }
            }
            Guarded::Done((Some((s, d)), _)) => {
                h.calls.push(Call::FeedStr(s.clone()));
                rep.violation("C20", format!("inert sequence {:?} changed the terminal: {}", esc(&s), d), &h);
            }
            Guarded::AvtPanic(..) => rep.count_s("foreign_divergence[C01]".into(), 1),
            Guarded::HarnessPanic(m, l) => rep.inconclusive(format!("harness panic at {}: {}", l, m)),
        }
        if u < 2 {
            rep.sample(format!("random: {} then inert {:?}", h.brief(), cands.iter().map(|c| esc(c)).collect::<Vec<_>>()));
        }
    }
    // (c) the differential monitor with a string-heavy profile (characters inside strings must
    // leave model and terminal untouched, parser state must follow the table)
    crate::mon::diffmon::work(ctx, rep, (8000, 150_000), (3, 4), false);
}

/// replay: all calls but the last build the prior state, the last one is the inert sequence
pub fn replay(h: &History, rep: &mut Report) {
    let Some((last, prior)) = h.calls.split_last() else { return };
    let Call::FeedStr(seq) = last else { return };
    if !model_inert(seq) {
        return;
    }
    let nch = seq.chars().count();
    let mut modes = vec![Feeding::Whole, Feeding::PerChar];
    modes.extend((1..nch.min(200)).map(Feeding::CutAfter));
    for mode in modes {
        let res = guarded(|| {
            let mut vt = h.build();
            for c in prior {
                match c {
                    Call::FeedStr(s) => drop(vt.feed_str(s)),
                    Call::Feed(s) => s.chars().for_each(|ch| vt.feed(ch)),
                    Call::Resize(c, r) => drop(vt.resize(*c, *r)),
                }
            }
            let mut r = check_inert_mode(&mut vt, seq, mode);
            if r.is_none() && mode == Feeding::Whole {
                for probe in PROBES {
                    let mut a = h.build();
                    let mut b = h.build();
                    for c in prior {
                        match c {
                            Call::FeedStr(s) => {
                                drop(a.feed_str(s));
                                drop(b.feed_str(s));
                            }
                            Call::Feed(s) => s.chars().for_each(|ch| {
                                a.feed(ch);
                                b.feed(ch)
                            }),
                            Call::Resize(c, r) => {
                                drop(a.resize(*c, *r));
                                drop(b.resize(*c, *r));
                            }
                        }
                    }
                    drop(a.feed_str(seq));
                    drop(b.feed_str(""));
                    r = check_twin(&mut a, &mut b, probe);
                    if r.is_some() {
                        break;
                    }
                }
            }
            r
        });
        if let Guarded::Done(Some(d)) = res {
            rep.violation("C20", format!("inert sequence {:?} changed the terminal: {}", esc(seq), d), h);
            return;
        }
    }
}
