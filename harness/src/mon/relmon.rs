//! Relational (two-execution / before-after) monitors on the real public API:
//! C09 (logical text at any width), C10 (resize keeps text and cursor place), C12 (chunking
//! independence), C14 (conservation of scrolled-off lines), C16 (alternate screen isolation),
//! C19 (RIS = fresh terminal).

use crate::calls::{apply, run_all, Handling};
use crate::gen::{self, Gen, Profile, *};
use crate::hist::{esc, Call, History};
use crate::logical::{logical, resize_relation_w, rewrap_relation, txt};
use crate::model::term::{MLine, MPen};
use crate::mon::callmon::c02_after;
use crate::report::Report;
use crate::rng::{mix, Rng};
use crate::run::{guarded, Ctx, Guarded};
use crate::snap::{diff_hidden, diff_lines, hidden, Snap};
use avt::util::{TextCollector, TextUnwrapper};
use avt::Vt;

/// run `f` guarded; panics inside avt are C01's business
fn guard<T>(h: &History, rep: &mut Report, f: impl FnOnce(&mut Report) -> Option<T>) -> Option<T> {
    match guarded(|| f(rep)) {
        Guarded::Done(v) => v,
        Guarded::AvtPanic(..) => {
            rep.count_s("foreign_divergence[C01]".into(), 1);
            None
        }
        Guarded::HarnessPanic(msg, loc) => {
            rep.inconclusive(format!("harness panic at {}: {} on {}", loc, msg, h.brief()));
            None
        }
    }
}

fn feed_all(vt: &mut Vt, h: &History) {
    for c in &h.calls {
        drop(apply(vt, c, Handling::Consume));
    }
}

// ------------------------------------------------------------------------------------------ C09

fn printable(r: &mut Rng) -> char {
    match r.below(20) {
        0 => ' ',
        1 => char::from_u32(0xa1 + r.below(0x5e) as u32).unwrap(),
        2 => char::from_u32(0x4e00 + r.below(0x2000) as u32).unwrap(),
        3 => *r.pick(&['\u{3000}', '\u{a0}', '\u{2003}', '\u{300}', '\u{1f600}', '\u{7f}', '\u{ad}', '\u{feff}']),
        _ => char::from_u32(0x21 + r.below(0x5e) as u32).unwrap(),
    }
}

/// G4: a plain text; line lengths drawn around multiples of `cols`
pub fn plain_text(r: &mut Rng, cols: usize, max_lines: usize) -> Vec<String> {
    let n = match r.below(5) {
        0 => r.range(0, 3),
        1 => r.range(0, max_lines),
        _ => r.range(1, 12.min(max_lines.max(1))),
    };
    (0..n)
        .map(|_| {
            let k = r.below(4);
            let len = match r.below(8) {
                0 => 0,
                1 => (k * cols).saturating_sub(1),
                2 => k * cols,
                3 => k * cols + 1,
                4 => r.range(0, cols),
                5 => r.range(0, 3 * cols + 2),
                6 => 1,
                _ => r.range(0, 2 * cols),
            };
            match r.below(11) {
                10 => {
                    // leading spaces (also whole rows of them) before some text
                    let t = r.range(0, len);
                    let mut s = " ".repeat(len - t);
                    s.extend((0..t).map(|_| printable(r)));
                    s
                }
                0 => " ".repeat(len),
                1 => {
                    // trailing spaces after some text
                    let t = r.range(0, len);
                    let mut s: String = (0..t).map(|_| printable(r)).collect();
                    s.push_str(&" ".repeat(len - t));
                    s
                }
                _ => (0..len).map(|_| printable(r)).collect(),
            }
        })
        .collect()
}

fn strip_trailing_empty(mut v: Vec<String>) -> Vec<String> {
    while v.last().map_or(false, |s| s.is_empty()) {
        v.pop();
    }
    v
}

fn unwrapped_lines(vt: &Vt) -> Vec<String> {
    let mut u = TextUnwrapper::new();
    let mut out: Vec<String> = vt.lines().iter().filter_map(|l| u.push(l)).collect();
    out.extend(u.flush());
    out
}

pub fn c09_case(lines: &[String], cols: usize, rows: usize) -> Option<String> {
    let input = lines.join("\r\n");
    let expected = strip_trailing_empty(lines.iter().map(|l| l.trim_end().to_string()).collect());
    let mut vt = Vt::builder().size(cols, rows).build();
    drop(vt.feed_str(&input));
    let got = strip_trailing_empty(vt.text().iter().map(|l| l.trim_end().to_string()).collect());
    if got != expected {
        let i = (0..got.len().max(expected.len())).find(|i| got.get(*i) != expected.get(*i)).unwrap();
        return Some(format!("text() line {}: {:?}, input line: {:?}", i, got.get(i), expected.get(i)));
    }
    let un = strip_trailing_empty(unwrapped_lines(&vt).iter().map(|l| l.trim_end().to_string()).collect());
    if un != expected {
        let i = (0..un.len().max(expected.len())).find(|i| un.get(*i) != expected.get(*i)).unwrap();
        return Some(format!("TextUnwrapper line {}: {:?}, input line: {:?}", i, un.get(i), expected.get(i)));
    }
    None
}

pub fn c09_history(h: &History, rep: &mut Report) {
    let lines: Vec<String> = h.all_text().split("\r\n").map(|s| s.to_string()).collect();
    let (cols, rows) = (h.cols, h.rows);
    let (cols2, rows2) = (h.meta_get("cols2").unwrap_or(cols), h.meta_get("rows2").unwrap_or(rows));
    rep.evaluations += 1;
    let res = guard(h, rep, |rep| {
        for (c, rw) in [(cols, rows), (cols2, rows2)] {
            if let Some(d) = c09_case(&lines, c, rw) {
                return Some((c, rw, d));
            }
            let total: usize = lines.iter().map(|l| (l.chars().count() + c - 1) / c.max(1)).map(|x| x.max(1)).sum();
            for l in &lines {
                let len = l.chars().count();
                let cls = if len == 0 {
                    0
                } else if len % c == 0 {
                    1
                } else if len % c == 1 {
                    2
                } else if len % c == c - 1 {
                    3
                } else {
                    4
                };
                let span = ((len + c - 1) / c).min(4) as u64;
                rep.key(mix(mix(cls, span), ((total > rw) as u64) * 1000 + c.min(40) as u64 * 4 + rw.min(3) as u64));
            }
            if total > rw {
                rep.count("texts_that_scrolled", 1);
            }
            if lines.iter().any(|l| l.chars().count() > c) {
                rep.count("texts_with_wrapped_lines", 1);
            }
        }
        None
    });
    if let Some((c, rw, d)) = res {
        let mut hv = History::new(c, rw, None);
        hv.calls = h.calls.clone();
        rep.violation("C09", d, &hv);
    }
}

pub fn work_c09(ctx: &Ctx, rep: &mut Report) {
    let (maxw, maxh) = if ctx.thorough { (120, 40) } else { (40, 12) };
    let n = ctx.scale(300_000, 10_000_000);
    for u in ctx.units(n) {
        let mut r = Rng::derive(ctx.seed, &[0xC09, 1, u as u64]);
        // widths: every width of the tier is visited in turn, heights random
        let cols = 1 + u % maxw;
        let rows = r.range(1, maxh);
        let lines = plain_text(&mut r, cols, if u % 97 == 0 { 200 } else { 30 });
        let mut h = History::new(cols, rows, None);
        h.calls.push(Call::FeedStr(lines.join("\r\n")));
        h.meta.push(("cols2".into(), r.range(1, maxw)));
        h.meta.push(("rows2".into(), r.range(1, maxh)));
        if u < 2 {
            rep.sample(format!("{}x{} and {}x{}: {:?}", cols, rows, h.meta[0].1, h.meta[1].1, lines.iter().take(4).collect::<Vec<_>>()));
        }
        c09_history(&h, rep);
    }
}

// ------------------------------------------------------------------------------------------ C10

fn no_alt_profile() -> Profile {
    Profile::general().with(T_ALT, 0).with(T_RIS, 0).with(T_TEXT, 40).resizes(0).limits(gen::LIMITS_NONE)
}

pub fn work_c10(ctx: &Ctx, rep: &mut Report) {
    let (maxw, maxh) = if ctx.thorough { (200, 60) } else { (40, 12) };
    let n = ctx.scale(200_000, 4_000_000);
    let prof = no_alt_profile().size(14, 8).length((1, 5), (1, 7));
    for u in ctx.units(n) {
        let mut r = Rng::derive(ctx.seed, &[0xC10, 1, u as u64]);
        let mut h = gen::history(&mut r, &prof);
        if u % 5 == 0 {
            // larger screens with long wrapped lines
            h.cols = r.range(1, maxw);
            h.rows = r.range(1, maxh);
        }
        // then chains of resizes interleaved with more input
        let nres = r.range(1, 6);
        let (mut pc, mut pr) = (h.cols, h.rows);
        for _ in 0..nres {
            let (c, rw) = if r.chance(1, 3) { (r.range(1, maxw), r.range(1, maxh)) } else { (r.range(1, 14), r.range(1, 8)) };
            if r.chance(1, 4) {
                // a completed excursion to the alternate screen at unchanged size belongs to "every
                // reachable primary-screen content": whatever it leaves behind (flags, caches) must not
                // change how the primary is re-wrapped afterwards
                let mut s = String::from(*r.pick(&["\x1b[?1047h", "\x1b[?1049h", "\x1b[?47h"]));
                for _ in 0..r.range(0, 3) {
                    let t = r.weighted(&prof.w);
                    s.push_str(&Gen::new(&mut r, pc, pr).token(t));
                }
                s.push('\x18');
                s.push_str(*r.pick(&["\x1b[?1047l", "\x1b[?1049l", "\x1b[?47l"]));
                h.calls.push(Call::FeedStr(s));
                rep.count("histories_with_a_completed_alternate_screen_excursion_before_a_resize", 1);
            }
            pc = c;
            pr = rw;
            h.calls.push(Call::Resize(c, rw));
            if r.chance(1, 2) {
                let mut s = String::new();
                for _ in 0..r.range(1, 4) {
                    let t = r.weighted(&prof.w);
                    s.push_str(&Gen::new(&mut r, c, rw).token(t));
                }
                h.calls.push(Call::FeedStr(s));
            }
        }
        if u < 2 {
            rep.sample(h.brief());
        }
        c10_history(&h, rep);
    }
}

pub fn c10_history(h: &History, rep: &mut Report) {
    rep.evaluations += 1;
    let hh = h.clone();
    let res = guard(h, rep, |rep| {
        let mut vt = hh.build();
        for (i, call) in hh.calls.iter().enumerate() {
            if let Call::Resize(c, rw) = call {
                if vt.verif_state().alternate_active {
                    drop(vt.resize(*c, *rw));
                    continue;
                }
                let b = logical(&vt, false);
                let (oc, or) = vt.size();
                let cur = vt.cursor();
                drop(vt.resize(*c, *rw));
                let a = logical(&vt, false);
                rep.count("resizes_checked", 1);
                if let Some(d) = resize_relation_w(&b, &a, *c == oc) {
                    return Some((
                        i + 1,
                        format!(
                            "resize {}x{} -> {}x{}: {}; cursor line before {:?} at {:?}, after {:?} at {:?}",
                            oc, or, c, rw, d, b.lines.get(b.cur.0).map(|l| txt(l)), b.cur, a.lines.get(a.cur.0).map(|l| txt(l)), a.cur
                        ),
                    ));
                }
                let on_char = b.lines.get(b.cur.0).map(|l| b.cur.1 < crate::logical::trim(l).len()).unwrap_or(false);
                if on_char {
                    rep.count("resizes_with_cursor_on_a_character", 1);
                }
                if *c != oc && b.lines.len() < vt.lines().len().max(1) {
                    rep.count("width_changes_with_wrapped_lines", 1);
                }
                let span = (b.lines[b.cur.0].len() / oc.max(1)).min(3) as u64;
                rep.key(mix(
                    ((c.cmp(&oc) as i8 + 1) as u64) * 3 + (rw.cmp(&or) as i8 + 1) as u64,
                    (on_char as u64) * 64 + ((cur.col == oc) as u64) * 32 + span * 8 + ((b.lines.len() > or) as u64) * 4 + (oc.min(3) as u64),
                ));
            } else {
                drop(apply(&mut vt, call, Handling::Consume));
            }
        }
        None
    });
    if let Some((n, msg)) = res {
        let mut cut = h.clone();
        cut.calls.truncate(n);
        rep.violation("C10", msg, &cut);
    }
}

// ------------------------------------------------------------------------------------------ C12

fn chunkings(r: &mut Rng, s: &str, exhaustive_bits: Option<u32>) -> Vec<Vec<String>> {
    let chars: Vec<char> = s.chars().collect();
    let n = chars.len();
    let cut = |cuts: &[usize]| -> Vec<String> {
        let mut out = Vec::new();
        let mut prev = 0;
        for c in cuts.iter().chain(std::iter::once(&n)) {
            out.push(chars[prev..*c].iter().collect::<String>());
            prev = *c;
        }
        out
    };
    let mut v = Vec::new();
    if let Some(mask) = exhaustive_bits {
        let cuts: Vec<usize> = (1..n).filter(|i| mask & (1 << (i - 1)) != 0).collect();
        v.push(cut(&cuts));
        return v;
    }
    for _ in 0..3 {
        let k = r.range(1, 6.min(n.max(2)) - 1 + 1);
        let mut cuts: Vec<usize> = (0..k).map(|_| r.range(0, n)).collect();
        cuts.sort();
        cuts.dedup();
        v.push(cut(&cuts));
    }
    v
}

fn final_state(vt: &mut Vt, limit: Option<usize>) -> (Snap, avt::verif::VerifState) {
    let alt = vt.verif_state().alternate_active;
    if alt || limit.is_some() {
        // feed() by design never trims; the alternate buffer always has limit 0
        drop(vt.feed_str(""));
    }
    let mut s = Snap::of(vt);
    if limit.is_some() {
        // lines() is only promised to agree with unlimited scrollback: compare the view only
        s.lines.clear();
        s.text.clear();
    }
    let mut h = hidden(vt);
    // retained scrollback is only promised to agree under unlimited scrollback, and a parked
    // alternate buffer is discarded on the next entry: its length is not observable
    if limit.is_some() {
        h.buffer.len = 0;
        h.other_buffer.len = 0;
    }
    if !h.alternate_active {
        h.other_buffer.len = 0;
    }
    (s, h)
}

pub fn c12_case(cols: usize, rows: usize, limit: Option<usize>, s: &str, pieces: &[Vec<String>], rep: &mut Report) -> Option<String> {
    let build = || {
        let mut b = Vt::builder();
        b.size(cols, rows);
        if let Some(l) = limit {
            b.scrollback_limit(l);
        }
        b.build()
    };
    let mut whole = build();
    drop(whole.feed_str(s));
    let (sw, hw) = final_state(&mut whole, limit);
    let mut per = build();
    for ch in s.chars() {
        per.feed(ch);
    }
    let (sp, hp) = final_state(&mut per, limit);
    if let Some(d) = sw.diff_all(&sp).or_else(|| diff_hidden(&hw, &hp)) {
        return Some(format!("feed_str(whole) vs feed() per character: {}", d));
    }
    for p in pieces {
        let mut vt = build();
        let mut pm = crate::model::parser::PModel::new();
        for piece in p {
            drop(vt.feed_str(piece));
            for ch in piece.chars() {
                pm.feed_act(ch);
            }
            rep.key(mix(pm.st as u64, limit.map(|l| l.min(3) as u64 + 1).unwrap_or(0) * 16 + (pm.params.len().min(3) as u64) * 4 + (pm.params.last().map(|x| x.len()).unwrap_or(1).min(3) as u64)));
        }
        let (sc, hc) = final_state(&mut vt, limit);
        if let Some(d) = sw.diff_all(&sc).or_else(|| diff_hidden(&hw, &hc)) {
            return Some(format!("feed_str(whole) vs pieces {:?}: {}", p.iter().map(|x| esc(x)).collect::<Vec<_>>(), d));
        }
        rep.count("chunkings_compared", 1);
    }
    None
}

pub fn c12_history(h: &History, rep: &mut Report) {
    let s = h.all_text();
    let pieces = match (h.meta_get("mask"), h.meta_get("chunkseed")) {
        (Some(m), _) => chunkings(&mut Rng::new(1), &s, Some(m as u32)),
        (None, Some(cs)) => chunkings(&mut Rng::new(cs as u64), &s, None),
        _ => vec![h.calls.iter().map(|c| if let Call::FeedStr(x) | Call::Feed(x) = c { x.clone() } else { String::new() }).collect()],
    };
    rep.evaluations += 1;
    let res = guard(h, rep, |rep| c12_case(h.cols, h.rows, h.limit, &s, &pieces, rep));
    if let Some(d) = res {
        rep.violation("C12", d, h);
    }
}

pub fn work_c12(ctx: &Ctx, rep: &mut Report) {
    let prof = Profile::general().with(T_RIS, 1).with(T_MALFORMED, 3).with(T_STR, 4).with(T_SOUP, 3).resizes(0).length((1, 1), (2, 14)).huge(4).with(T_STBM, 8).with(T_C0, 25);
    let n = ctx.scale(100_000, 5_000_000);
    for u in ctx.units(n) {
        let mut r = Rng::derive(ctx.seed, &[0xC12, 1, u as u64]);
        let mut h = gen::history(&mut r, &prof);
        h.meta.push(("chunkseed".into(), (r.next() % 1_000_000_007) as usize));
        if u < 2 {
            rep.sample(format!("{} (+ per-character feed and 3 random splittings)", h.brief()));
        }
        c12_history(&h, rep);
    }
    // very long single calls (implementations that work through a call in blocks): multi-byte
    // characters at every alignment relative to powers of two of the byte offset
    {
        let lens = [65_536usize, 65_600, 131_072, 200_000, 262_144 + 7];
        let glyphs = ["\u{e9}", "\u{4e16}", "\u{1f600}", "\u{4e16}\u{e9}x"];
        let total = lens.len() * glyphs.len() * 4;
        let mut done = 0u64;
        for u in ctx.units(total) {
            let len = lens[u % lens.len()];
            let g = glyphs[(u / lens.len()) % glyphs.len()];
            let pad = u / (lens.len() * glyphs.len());
            let mut t = "a".repeat(pad);
            let mut k = 0usize;
            while t.len() < len + 40 {
                t.push_str(g);
                k += 1;
                if k % 97 == 0 {
                    t.push_str("\r\n");
                }
                if k % 1013 == 0 {
                    t.push_str("\x1b[3");
                    t.push_str(g); // a non-ASCII character inside a sequence, too
                    t.push_str("\x1b[1;32m");
                }
            }
            let mut h = History::new(9, 3, None);
            h.calls.push(Call::FeedStr(t));
            h.meta.push(("chunkseed".into(), 1 + u * 7919));
            c12_history(&h, rep);
            done += 1;
        }
        rep.count("single_calls_longer_than_64_KiB", done);
    }
    // every subset of cut points for short inputs
    let shorts: Vec<&str> = vec![
        "ab\x1b[1;31mc", "\x1b[2;3Hxy", "a\x1b]0;t\x07b", "\x1b[38:2:1:2:3mz", "abcd\r\nef", "\x1b[?1049hq\x1b[?1049l", "\u{9b}2;2r\x1bMx", "\x1bP1$q\x1b\\k",
        "ab\x1b[2bcd", "\x1b(0qx\x1b(Bq", "\x1b[?6h\x1b[3;1Hx", "\x1b7\x1b[5Cz\x1b8w",
        // a number beyond 32 bits, cut between any two of its digits
        "abc\x1b[4294967298Dx", "q\x1b[4294967299b",
        // runs of identical controls longer than the scroll region they act on (batching of runs)
        "a\x1b[1;2r\n\n\n\n\n\nb", "ab\x1b[1;2r\x0b\x0c\x1bD\n\x1bD\nq", "abcdefghijkl\x1bM\x1bM\x1bM\x1bM", "\x1b[2;3r\x1b[3H\n\n\n\nxy",
    ];
    let total: usize = shorts.iter().map(|s| 1usize << (s.chars().count() - 1)).sum();
    let mut base = 0usize;
    for s in &shorts {
        let m = 1usize << (s.chars().count() - 1);
        for u in ctx.units(total) {
            if u < base || u >= base + m {
                continue;
            }
            for (cols, rows, limit) in [(4usize, 3usize, None), (2, 2, Some(1))] {
                let mut h = History::new(cols, rows, limit);
                h.calls.push(Call::FeedStr(s.to_string()));
                h.meta.push(("mask".into(), u - base));
                c12_history(&h, rep);
            }
        }
        base += m;
    }
    if ctx.shard == 0 {
        rep.count("short_inputs_with_every_cut_subset", shorts.len() as u64);
    }
}

// ------------------------------------------------------------------------------------------ C14

fn c14_profile() -> Profile {
    Profile::general()
        .with(T_RIS, 0)
        .with(T_TEXT, 40)
        .with(T_C0, 30)
        .with(T_LINES, 14)
        .with(T_STBM, 6)
        .with(T_ALT, 4)
        .resizes(0)
        .limits(gen::LIMITS_FINITE)
        .length((3, 25), (2, 10))
        .size(16, 6)
}

fn contains_ris(s: &str) -> bool {
    let mut pm = crate::model::parser::PModel::new();
    s.chars().any(|ch| matches!(pm.feed_act(ch).0, Some(crate::model::parser::F::Ris)))
}

pub fn c14_history(h: &History, rep: &mut Report) {
    rep.evaluations += 1;
    let hh = h.clone();
    let res = guard(h, rep, |rep| {
        let mut lim = hh.build();
        let mut drained = run_all(&mut lim, &hh);
        let handed = drained.len();
        drained.extend(lim.lines().iter().map(MLine::of));
        let mut un = Vt::builder().size(hh.cols, hh.rows).build();
        // the unlimited twin gets the input in ONE call (also a different chunking)
        drop(un.feed_str(&hh.all_text()));
        let all: Vec<MLine> = un.lines().iter().map(MLine::of).collect();
        if let Some(d) = diff_lines("handed-out + retained vs unlimited", &drained, &all) {
            let kind = if drained.len() < all.len() {
                "lines lost"
            } else if drained.len() > all.len() {
                "lines duplicated or invented"
            } else {
                "a line altered or reordered"
            };
            return Some(format!("{}: {} (handed out {}, retained {}, unlimited holds {})", kind, d, handed, drained.len() - handed, all.len()));
        }
        if handed > 0 {
            rep.count("sessions_that_handed_out_lines", 1);
            rep.count("lines_handed_out", handed as u64);
            // did a trim point fall inside a wrapped logical line?
            if all.get(handed.saturating_sub(1)).map_or(false, |l| l.wrapped) {
                rep.count("trim_inside_a_wrapped_logical_line", 1);
            }
        }
        let text = hh.all_text();
        let excursion = text.contains("?1049h") || text.contains("?1047h") || text.contains("?47h");
        if excursion && handed > 0 {
            rep.count("sessions_with_excursion_and_handed_out_lines", 1);
        }
        rep.key(mix(
            hh.limit.unwrap_or(0) as u64,
            (handed.min(3) as u64) * 8 + (excursion as u64) * 4 + (all.iter().any(|l| l.wrapped) as u64) * 2 + (hh.rows.min(2) as u64 - 1),
        ));
        // TextCollector: same text for this limit + chunking as for unlimited + whole
        let collect = |limit: Option<usize>, pieces: Vec<&str>| -> Vec<String> {
            let mut b = Vt::builder();
            b.size(hh.cols, hh.rows);
            if let Some(l) = limit {
                b.scrollback_limit(l);
            }
            let mut tc = TextCollector::new(b.build());
            let mut out = Vec::new();
            for p in pieces {
                out.extend(tc.feed_str(p));
            }
            out.extend(tc.flush());
            strip_trailing_empty(out)
        };
        let pieces: Vec<&str> = hh.calls.iter().map(|c| if let Call::FeedStr(s) | Call::Feed(s) = c { s.as_str() } else { "" }).collect();
        let a = collect(hh.limit, pieces);
        let b = collect(None, vec![&text]);
        if a != b {
            let i = (0..a.len().max(b.len())).find(|i| a.get(*i) != b.get(*i)).unwrap();
            return Some(format!("TextCollector line {} under limit {:?}: {:?}, unlimited: {:?}", i, hh.limit, a.get(i), b.get(i)));
        }
        None
    });
    if let Some(d) = res {
        rep.violation("C14", d, h);
    }
}

pub fn work_c14(ctx: &Ctx, rep: &mut Report) {
    let prof = c14_profile();
    let n = ctx.scale(100_000, 2_000_000);
    for u in ctx.units(n) {
        let mut r = Rng::derive(ctx.seed, &[0xC14, 1, u as u64]);
        let mut h = gen::history(&mut r, &prof);
        // feed() hands out nothing itself: what scrolls off during feed() calls must come out of the
        // next feed_str (a third of the sessions keep their feed() calls, the rest use feed_str only)
        if u % 3 != 0 {
            for c in h.calls.iter_mut() {
                if let Call::Feed(s) = c {
                    *c = Call::FeedStr(s.clone());
                }
            }
        }
        // a session that ends on the primary screen
        h.calls.push(Call::FeedStr("\x18\x1b[?1047l".into()));
        if contains_ris(&h.all_text()) {
            // "sessions without hard reset": a truncated ESC followed by text starting with 'c'
            rep.count("sessions_skipped_because_they_contain_RIS", 1);
            continue;
        }
        if u < 2 {
            rep.sample(h.brief());
        }
        c14_history(&h, rep);
    }
}

// ------------------------------------------------------------------------------------------ C16

fn excursion_profile() -> Profile {
    // anything except leaving the alternate screen or a hard reset
    Profile::general().with(T_ALT, 0).with(T_RIS, 0).resizes(0).length((1, 5), (1, 6))
}

/// true iff feeding `s` (parser state carried in `pm`) completes neither a leave sequence nor RIS
fn leave_free(pm: &mut crate::model::parser::PModel, s: &str) -> bool {
    let mut ok = true;
    for ch in s.chars() {
        if let Some(f) = pm.feed_act(ch).0 {
            match f {
                crate::model::parser::F::Decrst(ms) if ms.iter().any(|m| matches!(m, 47 | 1047 | 1049)) => ok = false,
                crate::model::parser::F::Ris => ok = false,
                _ => {}
            }
        }
    }
    ok
}

pub fn c16_history(h: &History, rep: &mut Report) {
    let (enter_at, leave_at) = match (h.meta_get("enter_at"), h.meta_get("leave_at")) {
        (Some(a), Some(b)) if a < b && b < h.calls.len() => (a, b),
        _ => return,
    };
    let mode_of = |c: &Call| -> &'static str {
        let t = if let Call::FeedStr(s) = c { s.as_str() } else { "" };
        if t.contains("1049") {
            "1049"
        } else if t.contains("1047") {
            "1047"
        } else {
            "47"
        }
    };
    let (m1, m2) = (mode_of(&h.calls[enter_at]), mode_of(&h.calls[leave_at]));
    rep.evaluations += 1;
    let hh = h.clone();
    let res = guard(h, rep, |rep| {
        let mut vt = hh.build();
        let mut requested = (hh.cols, hh.rows);
        for c in &hh.calls[..enter_at] {
            if let Call::Resize(c, rw) = c {
                requested = (*c, *rw);
            }
            drop(apply(&mut vt, c, Handling::Consume));
        }
        let before = Snap::of(&vt);
        let lb = logical(&vt, true);
        let pen = MPen::of(&vt.verif_state().pen);
        let cur_b = vt.cursor();
        // enter
        drop(apply(&mut vt, &hh.calls[enter_at], Handling::Consume));
        if !vt.verif_state().alternate_active {
            return Some((enter_at + 1, "the alternate screen is not showing after the enter sequence".to_string()));
        }
        for (i, l) in vt.view().iter().enumerate() {
            let ml = MLine::of(l);
            if ml.wrapped || ml.cells.iter().any(|c| c.ch != ' ' || c.pen != pen) {
                return Some((enter_at + 1, format!("alternate screen row {} at entry is not blank in the current pen {:?}: {}", i, pen, ml.show())));
            }
        }
        let mut resized = false;
        for (i, c) in hh.calls[enter_at + 1..leave_at].iter().enumerate() {
            if let Call::Resize(c2, r2) = c {
                resized = resized || (*c2, *r2) != requested;
                requested = (*c2, *r2);
            }
            let out = apply(&mut vt, c, Handling::Consume);
            if !out.drained.is_empty() {
                return Some((enter_at + 2 + i, format!("{} scrollback lines handed out while the alternate screen is showing", out.drained.len())));
            }
            if !resized && vt.text() != before.text {
                return Some((enter_at + 2 + i, format!("text() changed during the excursion (call {:?})", c)));
            }
            if let Some(d) = c02_after(&vt, requested, &out) {
                return Some((enter_at + 2 + i, format!("geometry invariant during the excursion: {}", d)));
            }
        }
        // leave
        let out = apply(&mut vt, &hh.calls[leave_at], Handling::Consume);
        if vt.verif_state().alternate_active {
            return Some((leave_at + 1, "still on the alternate screen after the leave sequence".to_string()));
        }
        if let Some(d) = c02_after(&vt, requested, &out) {
            return Some((leave_at + 1, format!("geometry invariant after return: {}", d)));
        }
        let after = Snap::of(&vt);
        let both1049 = m1 == "1049" && m2 == "1049";
        if !resized {
            if let Some(d) = diff_lines("primary lines()", &before.lines, &after.lines) {
                return Some((leave_at + 1, format!("the primary screen was altered by the excursion: {}", d)));
            }
            if before.text != after.text {
                return Some((leave_at + 1, "text() differs after the excursion".to_string()));
            }
            if both1049 {
                let c = vt.cursor();
                if (c.col, c.row) != (cur_b.col.min(before.size.0 - 1), cur_b.row) {
                    return Some((leave_at + 1, format!("1049 did not restore the cursor: was ({},{}), now ({},{})", cur_b.col, cur_b.row, c.col, c.row)));
                }
            }
        } else {
            rep.count("resized_excursions", 1);
            let la = logical(&vt, true);
            let front_loss = match rewrap_relation(&lb, &la, hh.limit.is_some()) {
                Err(d) => {
                    return Some((leave_at + 1, format!("after a resized excursion: {}; before {:?} after {:?}", d, lb.lines.iter().map(|l| txt(l)).collect::<Vec<_>>(), la.lines.iter().map(|l| txt(l)).collect::<Vec<_>>())));
                }
                Ok(f) => f,
            };
            if front_loss {
                rep.count("resized_excursions_with_rows_trimmed_at_the_top", 1);
            }
            // rows may have been trimmed at the top (finite limit) without the relation noticing,
            // e.g. in a long run of identical characters: only then is the offset not comparable
            let maybe_trimmed = hh.limit.map_or(false, |l| after.lines.len() >= after.size.1 + l);
            if both1049 && !front_loss && !maybe_trimmed {
                let on_char = lb.lines.get(lb.cur.0).map(|l| lb.cur.1 < crate::logical::trim(l).len()).unwrap_or(false);
                if on_char {
                    rep.count("resized_1049_excursions_with_cursor_on_a_character", 1);
                    if la.cur != lb.cur {
                        return Some((leave_at + 1, format!("1049 after a resize: cursor was on character {:?}, now at {:?}", lb.cur, la.cur)));
                    }
                }
            }
        }
        let mi = |m: &str| match m {
            "47" => 0u64,
            "1047" => 1,
            _ => 2,
        };
        rep.key(mix(
            mi(m1) * 3 + mi(m2),
            (resized as u64) * 64 + limit_c(hh.limit) * 8 + ((cur_b.col == before.size.0) as u64) * 4 + ((before.lines.len() > before.size.1) as u64) * 2 + (before.size != after.size) as u64,
        ));
        None
    });
    if let Some((n, msg)) = res {
        let mut cut = h.clone();
        cut.calls.truncate(n);
        rep.violation("C16", msg, &cut);
    }
}

/// Variant in which the primary's last output and the enter sequence arrive in ONE call, so that a
/// trim of the primary is still pending while it is parked: nothing executed during the excursion
/// may touch the parked primary (text(), its lines via the hook), and what is handed out when the
/// excursion ends plus what is retained must be exactly what was parked.
pub fn c16_merged_history(h: &History, rep: &mut Report) {
    let (merged_at, leave_at) = match (h.meta_get("merged_at"), h.meta_get("leave_at")) {
        (Some(a), Some(b)) if a < b && b < h.calls.len() => (a, b),
        _ => return,
    };
    rep.evaluations += 1;
    let hh = h.clone();
    let res = guard(h, rep, |rep| {
        let mut vt = hh.build();
        for c in &hh.calls[..=merged_at] {
            drop(apply(&mut vt, c, Handling::Consume));
        }
        if !vt.verif_state().alternate_active {
            return None; // the generated text contained something that left again; not this variant
        }
        let t0 = vt.text();
        let p0: Vec<MLine> = vt.verif_other_lines().iter().map(MLine::of).collect();
        let pending = vt.verif_state().other_buffer.trim_needed && hh.limit.map_or(false, |l| p0.len() > hh.rows + l + l / 10);
        if pending {
            rep.count("merged_entries_with_a_trim_pending_on_the_parked_primary", 1);
        }
        for (i, c) in hh.calls[merged_at + 1..leave_at].iter().enumerate() {
            let out = apply(&mut vt, c, Handling::Consume);
            if !out.drained.is_empty() {
                return Some((merged_at + 2 + i, format!("{} scrollback lines handed out while the alternate screen is showing", out.drained.len())));
            }
            if vt.text() != t0 {
                return Some((merged_at + 2 + i, format!("text() of the primary changed during the excursion (call {:?}): {} lines before, {} now", c, t0.len(), vt.text().len())));
            }
            let p: Vec<MLine> = vt.verif_other_lines().iter().map(MLine::of).collect();
            if let Some(d) = diff_lines("parked primary", &p0, &p) {
                return Some((merged_at + 2 + i, format!("the parked primary changed during the excursion (call {:?}): {}", c, d)));
            }
        }
        let out = apply(&mut vt, &hh.calls[leave_at], Handling::Consume);
        if vt.verif_state().alternate_active {
            return Some((leave_at + 1, "still on the alternate screen after the leave sequence".to_string()));
        }
        let mut all = out.drained.clone();
        all.extend(vt.lines().iter().map(MLine::of));
        if let Some(d) = diff_lines("handed out at return + retained vs parked primary", &all, &p0) {
            return Some((leave_at + 1, d));
        }
        rep.key(mix(0x16E, (hh.limit.map(|l| l as u64 + 1).unwrap_or(0)) * 4 + (pending as u64) * 2 + (out.drained.is_empty() as u64)));
        None
    });
    if let Some((n, msg)) = res {
        let mut cut = h.clone();
        cut.calls.truncate(n);
        rep.violation("C16", msg, &cut);
    }
}

pub fn work_c16(ctx: &Ctx, rep: &mut Report) {
    // merged-entry variant (pending trim while parked)
    let nm = ctx.scale(20_000, 300_000);
    let mprof = Profile::general().with(T_ALT, 0).with(T_RIS, 0).resizes(0).length((0, 3), (1, 5)).size(10, 5).limits(gen::LIMITS_FINITE).big(0);
    let eprof2 = excursion_profile().big(0);
    for u in ctx.units(nm) {
        let mut r = Rng::derive(ctx.seed, &[0xC16, 2, u as u64]);
        let mut h = gen::history(&mut r, &mprof);
        let limit = h.limit.unwrap_or(0);
        let n = limit + limit / 8 + h.rows + r.range(0, 6);
        let mut s = String::new();
        for k in 0..n {
            s.push_str(&format!("l{}\r\n", k % 10));
        }
        s.push_str(&format!("\x18\x1b[?{}h", r.pick(&["47", "1047", "1049"])));
        let merged_at = h.calls.len();
        if r.chance(1, 2) {
            h.calls.push(Call::FeedStr(s));
        } else {
            // scrolled through feed() (never trims), entered in a later call: also a pending trim
            let cut = s.len() - 9;
            h.calls.push(Call::Feed(s[..cut].to_string()));
            h.calls.push(Call::Feed(s[cut..].to_string()));
        }
        let merged_at = if let Some(Call::Feed(_)) = h.calls.last() { merged_at + 1 } else { merged_at };
        let mut filter = crate::model::parser::PModel::new();
        for c in gen::history(&mut r, &eprof2).calls {
            match &c {
                Call::FeedStr(x) | Call::Feed(x) if !leave_free(&mut filter, x) => {
                    filter = crate::model::parser::PModel::new();
                    h.calls.push(Call::FeedStr("\x18".into()));
                }
                Call::Resize(..) => {}
                _ => h.calls.push(c),
            }
        }
        // a same-size resize is a collecting call too
        if r.chance(1, 3) {
            h.calls.push(Call::Resize(h.cols, h.rows));
        }
        h.meta.push(("merged_at".into(), merged_at));
        h.meta.push(("leave_at".into(), h.calls.len()));
        h.calls.push(Call::FeedStr(format!("\x18\x1b[?{}l", r.pick(&["47", "1047", "1049"]))));
        if u < 1 {
            rep.sample(format!("merged entry: {}", h.brief()));
        }
        c16_merged_history(&h, rep);
    }
    let n = ctx.scale(150_000, 4_000_000);
    let pprof = Profile::general().with(T_ALT, 0).with(T_RIS, 0).with(T_TEXT, 40).resizes(3).length((1, 6), (1, 7)).size(12, 7).limits(LIMITS_HALF_NONE);
    let eprof = excursion_profile();
    for u in ctx.units(n) {
        let mut r = Rng::derive(ctx.seed, &[0xC16, 1, u as u64]);
        let mut h = gen::history(&mut r, &pprof);
        h.calls.push(Call::FeedStr("\x18".into()));
        if r.chance(1, 5) {
            // corner states random input rarely leaves the primary in at the moment of entry: cursor
            // outside the scroll region with origin mode on (only a restore gets it there) or off,
            // wrap pending, wrap pending with auto-wrap off
            let (c, rw) = h.calls.iter().rev().find_map(|x| if let Call::Resize(c, rw) = x { Some((*c, *rw)) } else { None }).unwrap_or((h.cols, h.rows));
            let corner = match r.below(6) {
                0 => format!("\x1b[r\x1b[?6h\x1b[{};2H\x1b7\x1b[2;3r\x1b8", rw),
                1 => "\x1b[r\x1b[?6h\x1b[1;2H\x1b7\x1b[2;3r\x1b8".to_string(),
                2 => format!("\x1b[?6l\x1b[2;3r\x1b[{};1H", rw),
                3 => format!("\x1b[?7h\x1b[2;{}HX", c),
                4 => format!("\x1b[?7h\x1b[1;{}HX\x1b[?7l", c),
                _ => format!("\x1b[?6h\x1b[1;{}r\x1b[{};1H\x1b7\x1b[2;{}r\x1b8", rw.saturating_sub(1).max(2), rw, rw),
            };
            h.calls.push(Call::FeedStr(corner));
            rep.count("excursions_entered_from_a_corner_state", 1);
        }
        // an EARLIER, completed excursion that left a saved context on the alternate screen, followed
        // by a shrink on the primary: what that excursion left behind must not break this one
        let earlier = r.chance(1, 5);
        if earlier {
            let (c, rw) = h.calls.iter().rev().find_map(|x| if let Call::Resize(c, rw) = x { Some((*c, *rw)) } else { None }).unwrap_or((h.cols, h.rows));
            h.calls.push(Call::FeedStr(format!("\x1b[?{}h\x1b[{};{}H\x1b[1;33m\x1b7\x1b[m\x1b[?{}l", r.pick(&["47", "1047", "1049"]), rw, c, r.pick(&["47", "1047"]))));
            h.calls.push(Call::Resize((c / 2).max(1), (rw / 2).max(1)));
            rep.count("excursions_after_an_earlier_excursion_and_a_shrink", 1);
        }
        let enter_at = h.calls.len();
        let m1 = *r.pick(&["47", "1047", "1049"]);
        h.calls.push(Call::FeedStr(format!("\x1b[?{}h", m1)));
        // excursion
        let mut first: Vec<Call> = Vec::new();
        if earlier && r.chance(2, 3) {
            first.push(Call::FeedStr((*r.pick(&["\x1b8", "\x1b[u", "\x1b[?1048l"])).to_string()));
        }
        let resized_variant = r.chance(1, 2);
        let mut e = gen::history(&mut r, &eprof);
        let mut ecalls: Vec<Call> = Vec::new();
        let mut filter = crate::model::parser::PModel::new();
        for c in e.calls.drain(..) {
            match &c {
                Call::FeedStr(s) | Call::Feed(s) if !leave_free(&mut filter, s) => {
                    // "anything except leaving it or a hard reset": replace the call by CAN
                    filter = crate::model::parser::PModel::new();
                    ecalls.push(Call::FeedStr("\x18".into()));
                    continue;
                }
                _ => {}
            }
            ecalls.push(c);
            if resized_variant && r.chance(1, 2) {
                let (c2, r2) = gen::pick_size(&mut r, 14, 8);
                ecalls.push(Call::Resize(c2, r2));
                if r.chance(1, 2) {
                    ecalls.push(Call::FeedStr(Gen::new(&mut r, c2, r2).cursor_cmd()));
                }
            }
            if r.chance(1, 6) {
                // re-entering while already there (mixed mode numbers) is allowed input
                ecalls.push(Call::FeedStr(format!("\x18\x1b[?{}h", r.pick(&["47", "1047", "1049"]))));
                filter = crate::model::parser::PModel::new();
            }
        }
        h.calls.extend(first);
        h.calls.extend(ecalls);
        let m2 = if m1 == "1049" && r.chance(3, 4) { "1049" } else { *r.pick(&["47", "1047", "1049"]) };
        let leave_at = h.calls.len();
        h.meta.push(("enter_at".into(), enter_at));
        h.meta.push(("leave_at".into(), leave_at));
        h.calls.push(Call::FeedStr(format!("\x18\x1b[?{}l", m2)));
        if u < 2 {
            rep.sample(h.brief());
        }
        c16_history(&h, rep);
    }
    // the differential rows for the switch itself (blank-in-current-pen entry, saved-context swap)
    crate::mon::diffmon::work(ctx, rep, (8_000, 150_000), (3, 4), false);
}


fn limit_c(l: Option<usize>) -> u64 {
    match l {
        None => 0,
        Some(0) => 1,
        Some(1..=9) => 2,
        Some(_) => 3,
    }
}

// ------------------------------------------------------------------------------------------ C19

/// probe scripts: each step exposes one hidden component through the public API
pub fn probes() -> Vec<Vec<&'static str>> {
    vec![
        vec![
            "m", "5;3H", "\x1b\\", "\x07", "X", "\x1b[999;999HYZ", "\x1b[1;1HA", "\n", "\n", "\n", "\x1bM", "\x1bM", "\x1bM", "\x1b[2;2Hab\x1b[2;2Hc", "q\x0eq\x0fq",
            "\r\t.\t.\t.\t.", "\x1b8P", "\x1b[1;1H\x1b[?1047h\x1b8Q\x1b[?1047l", "\x1b[?1047h\x1b8R", "\x1b[3g\r\tT", "\x1b[5Cx\x1b[Zy", "\x1b[J",
        ],
        vec![
            "\r\t.\t.\t.", "q\x0eq\x0fq", "\x1b[?1047h\x1b8Q", "\x1b8P", "\x1b[2;2Hab\x1b[2;2Hc", "\n\n\n\n", "\x1bM\x1bM\x1bM\x1bM", "\x1b[999;999HYZW",
            "\x1b[1;1HA", "X", "\x1b\\", "m", "\x1b[?1047l!", "\x1b[H\x1b[L", "\x1b[99;1H\x1b[S", "\x1b[?6h\x1b[HO", "\x1b[r\x1b[?6lo",
        ],
        vec!["\x1b[?1049h1", "\x1b[?1049l2", "\x1b8\x1b[K3", "\x1b[u4", "\x1b[?1048l5", "\x1b[!p6", "\x1b[20h\n7\x1b[20l\n8", "\x1b[4habc\x1b[4l", "\x1b#8", "\x1b[2J"],
    ]
}

pub fn c19_history(h: &History, rep: &mut Report) {
    let ris_at = match h.meta_get("ris_at") {
        Some(a) if a < h.calls.len() => a,
        _ => return,
    };
    rep.evaluations += 1;
    let hh = h.clone();
    // how far the run got: 0 = before the reset, n = the first n calls are done / being done
    let phase = std::cell::Cell::new(0usize);
    let res = match guarded(|| c19_run(&hh, ris_at, rep, &phase)) {
        Guarded::Done(v) => v,
        Guarded::AvtPanic(msg, loc) => {
            let n = phase.get();
            // "reacts to every subsequent input exactly like the fresh one": a reset terminal that
            // panics where a fresh terminal of the same size takes the same calls and queries
            // without panicking differs from it (the panic itself is C01's)
            let fresh_ok = n > ris_at && {
                let (mut c, mut rw) = (hh.cols, hh.rows);
                for call in &hh.calls[..ris_at] {
                    if let Call::Resize(a, b) = call {
                        c = *a;
                        rw = *b;
                    }
                }
                matches!(
                    guarded(|| {
                        let mut b = Vt::builder();
                        b.size(c, rw);
                        if let Some(l) = hh.limit {
                            b.scrollback_limit(l);
                        }
                        let mut fresh = b.build();
                        drop(Snap::of(&fresh));
                        for call in &hh.calls[ris_at + 1..n.min(hh.calls.len())] {
                            drop(apply(&mut fresh, call, Handling::Consume));
                            drop(Snap::of(&fresh));
                        }
                    }),
                    Guarded::Done(())
                )
            };
            rep.count_s("foreign_divergence[C01]".into(), 1);
            if fresh_ok {
                Some((n.min(hh.calls.len()), format!("after ESC c the terminal panics ({} at {}) where a fresh terminal of the same size handles the same calls and queries", msg, loc)))
            } else {
                None
            }
        }
        Guarded::HarnessPanic(msg, loc) => {
            rep.inconclusive(format!("harness panic at {}: {} on {}", loc, msg, h.brief()));
            None
        }
    };
    if let Some((n, msg)) = res {
        let mut cut = h.clone();
        cut.calls.truncate(n);
        rep.violation("C19", msg, &cut);
    }
}

fn c19_run(hh: &History, ris_at: usize, rep: &mut Report, phase: &std::cell::Cell<usize>) -> Option<(usize, String)> {
    {
        let mut vt = hh.build();
        for c in &hh.calls[..ris_at] {
            drop(apply(&mut vt, c, Handling::Consume));
        }
        let hb = vt.verif_state();
        let nondefault = (hb.alternate_active as u64)
            | (hb.origin_mode as u64) << 1
            | (!hb.auto_wrap_mode as u64) << 2
            | (hb.insert_mode as u64) << 3
            | (hb.new_line_mode as u64) << 4
            | (hb.cursor_keys_app_mode as u64) << 5
            | ((hb.top_margin != 0 || hb.bottom_margin + 1 != hb.rows) as u64) << 6
            | ((hb.charsets_drawing != [false, false] || hb.active_charset != 0) as u64) << 7
            | ((MPen::of(&hb.pen) != MPen::default()) as u64) << 8
            | ((hb.saved_ctx.cursor_col != 0 || hb.saved_ctx.cursor_row != 0) as u64) << 9
            | ((hb.other_saved_ctx.cursor_col != 0 || hb.other_saved_ctx.cursor_row != 0) as u64) << 10
            | ((!vt.cursor().visible) as u64) << 11
            | ((hb.buffer.len > hb.rows) as u64) << 12;
        rep.key(mix(hb.parser.as_ref().map(|p| p.state as u64).unwrap_or(99), nondefault));
        rep.count("resets_checked", 1);
        if hb.alternate_active {
            rep.count("resets_on_alternate_screen", 1);
        }
        if hb.cursor_keys_app_mode {
            rep.count("resets_with_cursor_key_mode_set", 1);
        }
        phase.set(ris_at + 1);
        drop(apply(&mut vt, &hh.calls[ris_at], Handling::Consume));
        let (c, rw) = vt.size();
        let mut fresh = {
            let mut b = Vt::builder();
            b.size(c, rw);
            if let Some(l) = hh.limit {
                b.scrollback_limit(l);
            }
            b.build()
        };
        drop(fresh.feed_str(""));
        let cmp = |a: &Vt, b: &Vt, what: &str| -> Option<String> {
            Snap::of(a).diff_all(&Snap::of(b)).or_else(|| diff_hidden(&hidden(a), &hidden(b))).map(|d| format!("{}: after ESC c vs fresh terminal: {}", what, d))
        };
        if let Some(d) = cmp(&vt, &fresh, "right after the reset") {
            return Some((ris_at + 1, d));
        }
        for (i, c) in hh.calls[ris_at + 1..].iter().enumerate() {
            phase.set(ris_at + 2 + i);
            let o1 = apply(&mut vt, c, Handling::Consume);
            let o2 = apply(&mut fresh, c, Handling::Consume);
            if o1.drained != o2.drained {
                return Some((ris_at + 2 + i, format!("continuation call {:?}: scrollback handed out differs", c)));
            }
            if i > 0 && o1.lines != o2.lines {
                return Some((ris_at + 2 + i, format!("continuation call {:?}: changed lines {:?} vs fresh {:?}", c, o1.lines, o2.lines)));
            }
            if let Some(d) = cmp(&vt, &fresh, &format!("after continuation call {} {:?}", i, c)) {
                return Some((ris_at + 2 + i, d));
            }
        }
        None
    }
}

pub fn work_c19(ctx: &Ctx, rep: &mut Report) {
    let n = ctx.scale(100_000, 4_000_000);
    let prof = Profile::general().boost(&[T_ALT, T_SAVE, T_MODE, T_STBM, T_TABS, T_CHARSET, T_SGR], 2).with(T_MALFORMED, 4).with(T_STR, 3).resizes(8);
    let cprof = Profile::general().resizes(5).length((1, 4), (1, 6));
    let pr = probes();
    // inputs that park the parser in each of the 14 states
    let parkers = [
        "", "\x1b", "\x1b(", "\x1b[", "\x1b[1;2", "\x1b[1 ", "\x1b[:", "\x1bP", "\x1bP1", "\x1bP ", "\x1bPq", "\x1bP:", "\x1b]0;", "\x1bX",
        // strings opened with the 8-bit introducers right after sequences that leave a marker /
        // intermediate / parameters behind (the C1 openers do not clear the registers)
        "\x1b[?25h\u{9d}0;t", "\x1b(B\u{98}x", "\x1b[!p\u{9e}y", "\x1b[1;2;3m\u{9f}abc", "\x1b#8\u{9d}", "\x1b[?7h\u{90}1$q", "\x1b)0\u{90}q",
    ];
    for u in ctx.units(n) {
        let mut r = Rng::derive(ctx.seed, &[0xC19, 1, u as u64]);
        let mut h = gen::history(&mut r, &prof);
        let park = parkers[u % parkers.len()];
        h.calls.push(Call::FeedStr(park.to_string()));
        let ris_at = h.calls.len();
        h.meta.push(("ris_at".into(), ris_at));
        h.calls.push(Call::FeedStr("\x1bc".into()));
        // continuation: probes or random
        let cont: Vec<Call> = if r.chance(1, 2) {
            pr[r.below(pr.len())].iter().map(|s| Call::FeedStr(s.to_string())).collect()
        } else {
            gen::history(&mut r, &cprof).calls
        };
        h.calls.extend(cont);
        if u < 2 {
            rep.sample(h.brief());
        }
        c19_history(&h, rep);
    }
    // state product: RIS from every combination of 14 mode/state bits x saved-context kinds
    {
        let total = crate::workloads::state_count();
        let stride = if ctx.thorough { 1 } else { 8 };
        let sizes = [(7usize, 4usize), (3, 2), (12, 5)];
        let mut u = ctx.shard * stride + (ctx.seed as usize % stride);
        let mut done = 0u64;
        while u < total {
            let (c, r) = sizes[(u / 7) % sizes.len()];
            let mut h = History::new(c, r, if u % 3 == 0 { Some(2) } else { None });
            h.calls.push(Call::FeedStr(crate::workloads::state_script(u, c, r)));
            h.calls.push(Call::FeedStr(parkers[u % parkers.len()].to_string()));
            h.meta.push(("ris_at".into(), 2));
            h.calls.push(Call::FeedStr("\x1bc".into()));
            for p in &pr[u % pr.len()] {
                h.calls.push(Call::FeedStr(p.to_string()));
            }
            c19_history(&h, rep);
            done += 1;
            u += stride * ctx.nshards;
        }
        rep.count("state_product_resets", done);
    }
    // RIS while the parked primary screen is stale: the alternate screen was entered and the terminal
    // resized (the primary buffer is only re-wrapped lazily), with and without primary scrollback, for
    // every combination of width / height change
    {
        let enters = ["\x1b[?47h", "\x1b[?1047h", "\x1b[?1049h"];
        let deltas: [isize; 7] = [0, 1, 2, 7, -1, -2, 40];
        let sbs = [0usize, 1, 3, 9];
        let sizes = [(6usize, 3usize), (4, 4), (10, 2), (1, 1), (16, 8)];
        let total = enters.len() * deltas.len() * deltas.len() * sbs.len() * sizes.len() * 2;
        let reps = if ctx.thorough { 8 } else { 1 };
        let mut done = 0u64;
        for rep_i in 0..reps {
            let mut u = ctx.shard;
            while u < total {
                let mut k = u;
                let mut pick = |n: usize| {
                    let v = k % n;
                    k /= n;
                    v
                };
                let enter = enters[pick(enters.len())];
                let dc = deltas[pick(deltas.len())];
                let dr = deltas[pick(deltas.len())];
                let sb = sbs[pick(sbs.len())];
                let (c, r) = sizes[pick(sizes.len())];
                let twice = pick(2) == 1;
                let mut rr = Rng::derive(ctx.seed, &[0xC19, 3, u as u64, rep_i as u64]);
                let mut h = History::new(c, r, match rr.below(3) { 0 => None, 1 => Some(0), _ => Some(5) });
                let mut pre = String::new();
                for i in 0..(sb + r - 1) {
                    pre.push_str(&format!("l{}\r\n", i));
                }
                pre.push_str("\x1b[1;7mtail");
                h.calls.push(Call::FeedStr(pre));
                h.calls.push(Call::FeedStr(enter.to_string()));
                let nc = (c as isize + dc).max(1) as usize;
                let nr = (r as isize + dr).max(1) as usize;
                if twice {
                    h.calls.push(Call::Resize((c + nc + 1) / 2, (r + nr) / 2 + 1));
                    h.calls.push(Call::FeedStr("mid\r\nway".into()));
                }
                h.calls.push(Call::Resize(nc, nr));
                if rr.chance(1, 2) {
                    h.calls.push(Call::FeedStr("alt\x1b[2;2Hx\x1b7".into()));
                }
                h.calls.push(Call::FeedStr(parkers[rr.below(parkers.len())].to_string()));
                h.meta.push(("ris_at".into(), h.calls.len()));
                h.calls.push(Call::FeedStr("\x1bc".into()));
                if rr.chance(1, 2) {
                    for p in &pr[rr.below(pr.len())] {
                        h.calls.push(Call::FeedStr(p.to_string()));
                    }
                } else {
                    h.calls.extend(gen::history(&mut rr, &cprof).calls);
                }
                c19_history(&h, rep);
                done += 1;
                u += ctx.nshards;
            }
        }
        rep.count("resets_with_stale_parked_primary_screen", done);
    }
    crate::mon::diffmon::work(ctx, rep, (6_000, 100_000), (0, 0), false);
}
