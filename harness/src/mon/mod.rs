pub mod diffmon;
