pub mod diffmon;
pub mod c03;
pub mod c20;
pub mod callmon;
pub mod relmon;
pub mod c11;
pub mod c01;
