//! C01: every public operation returns normally for every input and history; never panics (also
//! with overflow checks on), never takes time out of proportion to the work the input requests.

use crate::calls::{apply, Handling};
use crate::gen::{self, Gen, Profile, *};
use crate::hist::{Call, History};
use crate::model::parser::{PModel, F};
use crate::report::Report;
use crate::rng::{mix, Rng};
use crate::run::{guarded, Ctx, Guarded};
use crate::workloads::*;
use avt::util::TextCollector;
use avt::Vt;
use std::cell::Cell as StdCell;

// ---- thread CPU time (not wall-clock: the machine may be loaded) -----------------------------

#[repr(C)]
struct Timespec {
    tv_sec: i64,
    tv_nsec: i64,
}

extern "C" {
    fn clock_gettime(clk: i32, ts: *mut Timespec) -> i32;
}

const CLOCK_THREAD_CPUTIME_ID: i32 = 3;

pub fn cpu_ns() -> u64 {
    if cfg!(miri) {
        return 0;
    }
    let mut ts = Timespec { tv_sec: 0, tv_nsec: 0 };
    // SAFETY: plain libc call writing into a properly sized, owned struct
    let rc = unsafe { clock_gettime(CLOCK_THREAD_CPUTIME_ID, &mut ts) };
    if rc != 0 {
        return 0;
    }
    ts.tv_sec as u64 * 1_000_000_000 + ts.tv_nsec as u64
}

/// nanoseconds per unit of the work model on this machine, measured on a fixed reference workload
pub fn calibrate() -> f64 {
    let mut vt = Vt::builder().size(80, 24).build();
    let mut best = f64::MAX;
    for _ in 0..5 {
        let t0 = cpu_ns();
        let mut units = 0u64;
        for i in 0..200 {
            drop(vt.feed_str("\x1b[2J\x1b#8"));
            drop(vt.feed_str(&"the quick brown fox jumps over the lazy dog\r\n".repeat(10)));
            units += 2 * 80 * 24 + 450 * 24;
            if i % 50 == 0 {
                let _ = vt.dump();
                units += 80 * 24;
            }
        }
        let dt = (cpu_ns() - t0) as f64;
        best = best.min(dt / units as f64);
    }
    best.max(0.05)
}

/// The work a call literally requests, in units of "touch one cell / move one row".
fn work_units(call: &Call, cols: usize, rows: usize, lines_before: usize, lines_after: usize, parked: (usize, usize), pm: &mut PModel) -> u64 {
    let area = (cols * rows) as u64;
    // a screen switch (or reset) re-wraps the PARKED buffer, which resizes meanwhile left at its old
    // width, to the current size: the work of the deferred resize (same model as `Resize` below)
    let (pcols, plen) = parked;
    let deferred = if pcols != cols { 4 * ((plen * pcols) as u64 * (1 + pcols as u64 / cols.max(1) as u64) + plen as u64 * cols as u64) } else { 0 };
    match call {
        Call::FeedStr(s) | Call::Feed(s) => {
            let mut w = 0u64;
            for ch in s.chars() {
                w += 1;
                if let Some(f) = pm.feed_act(ch).0 {
                    w += match f {
                        F::Print(_) => (cols + rows) as u64,
                        F::Rep(n) => (n.max(1) as u64) * (cols + rows) as u64,
                        F::Decset(_) | F::Decrst(_) | F::Ris => 2 * area + lines_before as u64 * cols as u64 + deferred,
                        F::Ed(_) | F::Decaln => 2 * area + lines_before as u64 * cols as u64,
                        _ => area.min(64 * (cols + rows) as u64) + (cols + rows) as u64,
                    };
                }
            }
            // one trim per call
            w + lines_before as u64 + lines_after as u64
        }
        Call::Resize(c, r) => {
            // re-wrapping to a narrower width splits every row into cols/c pieces and the pinned
            // algorithm (Line::contract -> split_off) copies the remainder of the row for each piece:
            // O(cells x cols/c).  That factor is part of the work model, not a finding (DESIGN 11).
            let cells_before = lines_before as u64 * cols as u64;
            let narrowing = 1 + (cols as u64) / (*c as u64).max(1);
            // every line held before the call is brought to the new width before rows are dropped
            // or trimmed (2x111 -> 65535x1 writes 111 lines of 65535 cells and keeps one): that is
            // work for the size literally requested, too (DESIGN 11)
            let rewidth = lines_before as u64 * *c as u64;
            4 * (cells_before * narrowing + rewidth + lines_after as u64 * *c as u64 + (*c * *r) as u64 + area) + 64
        }
    }
}

/// a call (or a steady-state window) is only examined above this much thread CPU time ...
const EXAMINE_NS: u64 = 30_000_000;
/// ... and only becomes a violation if the minimum of three isolated re-runs still exceeds its
/// work-proportional budget AND this absolute amount
const CONFIRM_NS: u64 = 100_000_000;

thread_local! {
    static PROGRESS: StdCell<usize> = StdCell::new(0);
    static NS_PER_UNIT: StdCell<f64> = StdCell::new(0.0);
}

/// every read-only public operation
fn queries(vt: &Vt, deep: bool) -> usize {
    let mut acc = 0usize;
    let (cols, rows) = vt.size();
    let c = vt.cursor();
    acc += c.col + c.row + c.visible as usize + vt.cursor_key_app_mode() as usize;
    let o: Option<(usize, usize)> = c.into();
    acc += o.is_some() as usize;
    acc += vt.dump().len();
    acc += vt.text().len();
    acc += vt.view().len();
    for n in 0..rows {
        let l = vt.line(n);
        acc += l.len() + l.is_empty() as usize;
    }
    let lines = vt.lines();
    let step = if deep { 1 } else { (lines.len() / 8).max(1) };
    for l in lines.iter().step_by(step) {
        acc += l.cells().len();
        acc += l.chars().count();
        acc += l.text().len();
        acc += l.chunks(|a, b| a.pen() != b.pen()).count();
        acc += l.chunks(|_, _| true).count();
        acc += l.chunks(|_, _| false).map(|v| v.len()).sum::<usize>();
        acc += l.chunks(|a, b| a.char() != b.char() || a.width() != b.width()).count();
        acc += format!("{:?}", l).len();
        for cell in l.cells().iter().take(4) {
            acc += cell.width() + cell.is_default() as usize + cell.pen().is_default() as usize;
        }
    }
    acc + cols
}

pub struct Suspect {
    pub call: usize,
    pub ns: u64,
    pub budget: u64,
}

/// Run one history with every query after every call.  Returns the slowest call that broke the
/// work-proportionality budget, if any.
fn run(h: &History, seed: u64, with_queries: bool) -> Option<Suspect> {
    let mut r = Rng::new(seed);
    let mut vt = h.build();
    let mut pm = PModel::new();
    let npu = NS_PER_UNIT.with(|n| n.get());
    let mut worst: Option<Suspect> = None;
    PROGRESS.with(|p| p.set(0));
    if with_queries {
        queries(&vt, true);
    }
    for (i, call) in h.calls.iter().enumerate() {
        PROGRESS.with(|p| p.set(i + 1));
        let (cols, rows) = vt.size();
        let before = vt.lines().len();
        let parked = {
            let hs = vt.verif_state();
            (hs.other_buffer.cols, hs.other_buffer.len)
        };
        let t0 = cpu_ns();
        let out = apply(&mut vt, call, Handling::pick(&mut r));
        let dt = cpu_ns().saturating_sub(t0);
        let after = vt.lines().len();
        std::hint::black_box(&out);
        if npu > 0.0 && dt > EXAMINE_NS {
            let w = work_units(call, cols, rows, before, after, parked, &mut pm);
            // 200x the calibrated cost plus a constant
            let budget = (5_000_000.0 + 200.0 * npu * w as f64) as u64;
            if dt > budget && worst.as_ref().map_or(true, |s| dt > s.ns) {
                worst = Some(Suspect { call: i, ns: dt, budget });
            }
        } else if let Call::FeedStr(s) | Call::Feed(s) = call {
            for ch in s.chars() {
                pm.feed_act(ch);
            }
        }
        if with_queries {
            let t0 = cpu_ns();
            let n = queries(&vt, i % 4 == 0);
            std::hint::black_box(n);
            let dt = cpu_ns().saturating_sub(t0);
            if npu > 0.0 && dt > EXAMINE_NS {
                let (c2, r2) = vt.size();
                let w = 40 * (after as u64 * c2 as u64 + (c2 * r2) as u64) + 1000;
                let budget = (5_000_000.0 + 200.0 * npu * w as f64) as u64;
                if dt > budget && worst.as_ref().map_or(true, |s| dt > s.ns) {
                    worst = Some(Suspect { call: i, ns: dt, budget });
                }
            }
        }
    }
    worst
}

/// the same history through util::TextCollector (feed_str / resize / flush)
fn run_collector(h: &History) -> usize {
    let mut tc = TextCollector::new(h.build());
    let mut n = 0usize;
    for c in &h.calls {
        match c {
            Call::FeedStr(s) | Call::Feed(s) => n += tc.feed_str(s).count(),
            Call::Resize(c, r) => n += tc.resize((*c).min(u16::MAX as usize) as u16, (*r).min(u16::MAX as usize) as u16).count(),
        }
    }
    n + tc.flush().len()
}

fn call_key(h: &History, call: &Call, vt_cols: usize, vt_rows: usize) -> u64 {
    let kind = match call {
        Call::FeedStr(_) => 0u64,
        Call::Feed(_) => 1,
        Call::Resize(..) => 2,
    };
    let sc = |n: usize| match n {
        1 => 0u64,
        2..=3 => 1,
        4..=12 => 2,
        13..=80 => 3,
        _ => 4,
    };
    let lc = match h.limit {
        None => 0u64,
        Some(0) => 1,
        Some(1..=9) => 2,
        Some(10..=1000) => 3,
        Some(_) => 4,
    };
    mix(kind * 8 + lc, sc(vt_cols) * 8 + sc(vt_rows))
}

pub fn c01_history(h: &History, seed: u64, rep: &mut Report) {
    rep.evaluations += 1;
    rep.count("calls", h.calls.len() as u64);
    let res = guarded(|| {
        let s = run(h, seed, true);
        run_collector(h);
        s
    });
    match res {
        Guarded::Done(None) => {
            let (mut c, mut r) = (h.cols, h.rows);
            let mut pm = PModel::new();
            for call in &h.calls {
                let mut k = call_key(h, call, c, r);
                match call {
                    Call::Resize(a, b) => {
                        c = *a;
                        r = *b;
                    }
                    Call::FeedStr(s) | Call::Feed(s) => {
                        let st0 = pm.st as u64;
                        let mut huge = 0u64;
                        for ch in s.chars() {
                            pm.feed_act(ch);
                            if pm.unspecified {
                                huge = 1;
                            }
                        }
                        k = mix(k, st0 * 2 + huge);
                    }
                }
                rep.key(k);
            }
        }
        Guarded::Done(Some(s)) => {
            // a suspect only: confirm by re-running the history alone, three times, minimum taken
            let mut min_ns = u64::MAX;
            for _ in 0..3 {
                if let Guarded::Done(Some(s2)) = guarded(|| run(h, seed, true)) {
                    if s2.call == s.call {
                        min_ns = min_ns.min(s2.ns);
                        continue;
                    }
                }
                min_ns = 0;
                break;
            }
            if min_ns > s.budget && min_ns > CONFIRM_NS {
                let mut cut = h.clone();
                cut.calls.truncate(s.call + 1);
                rep.violation(
                    "C01",
                    format!("call {} took {:.2}s of CPU (minimum of 3 isolated re-runs) against a work-proportional budget of {:.3}s", s.call, min_ns as f64 / 1e9, s.budget as f64 / 1e9),
                    &cut,
                );
            } else {
                rep.count("cost_suspects_not_confirmed", 1);
            }
        }
        Guarded::AvtPanic(msg, loc) => {
            let at = PROGRESS.with(|p| p.get());
            let mut cut = h.clone();
            if at > 0 {
                cut.calls.truncate(at);
            }
            rep.violation("C01", format!("panic at {}: {} (in or after call {})", loc, msg, at.saturating_sub(1)), &cut);
        }
        Guarded::HarnessPanic(msg, loc) => rep.inconclusive(format!("harness panic at {}: {} on {}", loc, msg, h.brief())),
    }
}

const BIG_LIMITS: &[Option<usize>] =
    &[None, None, Some(0), Some(1), Some(2), Some(9), Some(10), Some(11), Some(25), Some(100), Some(1000), Some(100_000)];

/// the `u`-th history of the C01 workload (deterministic in (seed, tier, u))
fn g2_alpha() -> Vec<&'static str> {
    let mut alpha: Vec<&'static str> = g2_alphabet("general");
    alpha.extend_from_slice(&["\x1b[65535b", "\x1b[65535L", "\x1b[65535@", "\x1bc", "@resize 1 1", "@resize 3 2", "@resize 2 5"]);
    alpha
}

fn g2_sizes(ctx: &Ctx) -> &'static [(usize, usize)] {
    if ctx.thorough {
        G2_SIZES
    } else {
        &[(1, 1), (2, 1), (1, 2), (3, 2), (4, 3)]
    }
}

/// work units are numbered 0..total_units (G1/G6) and total_units.. (G2: all 3-call sequences)
pub fn unit_history(ctx: &Ctx, u: usize) -> History {
    let total = total_units(ctx);
    if u >= total {
        let alpha = g2_alpha();
        let sizes = g2_sizes(ctx);
        let per = alpha.len().pow(3);
        let g = u - total;
        let size = sizes[(g / per) % sizes.len()];
        let mut idx = g % per;
        let mut h = History::new(size.0, size.1, if g % 2 == 0 { Some(1) } else { None });
        for _ in 0..3 {
            h.calls.push(crate::mon::callmon::atom_call(alpha[idx % alpha.len()]));
            idx /= alpha.len();
        }
        return h;
    }
    let mut r = Rng::derive(ctx.seed, &[0xC01, 1, u as u64]);
    if u % 5000 == 7 {
        return deep_rewrap_history(&mut r);
    }
    let (maxc, maxr) = if ctx.thorough { (512, 128) } else { (40, 12) };
    let mut prof = Profile::general()
        .with(T_MALFORMED, 4)
        .with(T_SOUP, 6)
        .with(T_STR, 3)
        .with(T_UNIMPL, 3)
        .with(T_RIS, 1)
        .boost(&[T_ALT, T_SAVE], 2)
        .resizes(14)
        .huge(6)
        .limits(BIG_LIMITS)
        .length((1, 10), (1, 8));
    match u % 8 {
        0 => prof = prof.size(maxc, maxr),
        1 => prof = prof.size(4, 3),
        2 => prof = prof.size(maxc, 2),
        3 => prof = prof.size(2, maxr),
        _ => prof = prof.size(12, 7),
    }
    let mut h = gen::history(&mut r, &prof);
    if ctx.thorough && u % 500 == 0 {
        // the extreme aspect ratios named in DESIGN §4
        if u % 1000 == 0 {
            h.cols = 4096;
            h.rows = 1;
        } else {
            h.cols = 1;
            h.rows = 4096;
        }
    }
    if u % 11 == 0 {
        // explicit count-65535 commands and huge parameter lists on whatever state was reached
        let mut s = String::new();
        for _ in 0..r.range(1, 4) {
            s.push_str(*r.pick(&[
                "\x1b[65535b", "x\x1b[65535b", "\x1b[65535@", "\x1b[65535L", "\x1b[65535S", "\x1b[65535T", "\x1b[65535M", "\x1b[65535P", "\x1b[65535X", "\x1b[65535;65535H",
                "\x1b[65535A", "\x1b[65535B", "\x1b[65535C", "\x1b[65535D", "\x1b[65535I", "\x1b[65535Z", "\x1b[65535d", "\x1b[65535G", "\x1b[65535;65535r", "\x1b[99999999999b",
                "\x1b[4294967296;4294967297H", "\x1b[65536L", "\x1b[8;65535;65535t",
            ]));
        }
        h.calls.push(Call::FeedStr(s));
        let n = r.range(33, 70);
        h.calls.push(Call::FeedStr(format!("\x1b[{}m\x1b[38:2{}m", vec!["1"; n].join(";"), ":7".repeat(r.range(5, 12)))));
    }
    if u % 211 == 0 {
        // the largest sizes util::TextCollector::resize can ask for (u16), widening only
        let tall = u % 422 == 0;
        h.calls.push(if tall { Call::Resize(h.cols.min(3), 65535) } else { Call::Resize(65535, h.rows.min(2)) });
        h.calls.push(Call::FeedStr("xy\x1b[65535;65535Hz\x1b[65535b\x1b[65535@\x1b[65535P\x1b[65535X".into()));
        h.calls.push(if tall { Call::Resize(h.cols.min(3) + 1, 65535) } else { Call::Resize(65535, h.rows.min(2) + 1) });
    }
    if u % 13 == 0 {
        // scalar soup, 1-64 KiB
        let len = if ctx.thorough { r.range(1024, 65536) } else { r.range(256, 8192) };
        let (c, rw) = (h.cols, h.rows);
        let s = Gen::new(&mut r, c, rw).soup(len);
        h.calls.push(Call::FeedStr(s));
    }
    h
}

/// One logical line wrapped over 10^5 rows of a 1-3 column screen, then re-wrapped to a width in the
/// 10^4..10^5 range in one resize ("resizing to any size", "every prior history"): work that is linear in
/// the cells involved but exercises whatever an implementation does per joined row - iteration depth,
/// recursion, repeated copying (added after seed10_C01: a recursive `Reflow::next`).
pub fn deep_rewrap_history(r: &mut Rng) -> History {
    let cols = r.range(1, 3);
    let n = *r.pick(&[60_000usize, 120_000, 300_000, 300_000]);
    let mut h = History::new(cols, r.range(1, 3), if r.chance(1, 2) { None } else { Some(n + 1000) });
    let text: String = (0..n).map(|i| (b'a' + (i % 26) as u8) as char).collect();
    let head: String = text.chars().take(1000).collect();
    let tail: String = text.chars().skip(1000).collect();
    h.calls.push(Call::Feed(head));
    h.calls.push(Call::FeedStr(tail));
    let wide = *r.pick(&[n + 10, n / 2, n / 7, 65_536, n * cols]);
    h.calls.push(Call::Resize(wide.max(1000), r.range(1, 3)));
    h.calls.push(Call::FeedStr("xyz\r\n".into()));
    h.calls.push(Call::Resize((wide / 3).max(500), 2));
    h
}

pub fn total_units(ctx: &Ctx) -> usize {
    ctx.scale(80_000, 1_500_000)
}

pub const BATCH: usize = 64;

pub fn work(ctx: &Ctx, rep: &mut Report, status_file: Option<&str>) {
    if ctx.shard == 0 {
        rep.count_s(format!("build_profile[{}]", if cfg!(debug_assertions) { "checked: overflow+debug assertions" } else { "fast: release arithmetic" }), 1);
    }
    let npu = calibrate();
    NS_PER_UNIT.with(|n| n.set(npu));
    rep.count_s("calibrated_picoseconds_per_work_unit".into(), (npu * 1000.0) as u64 / ctx.nshards as u64);
    let total = total_units(ctx);
    let mut in_batch = 0;
    for u in ctx.units(total) {
        if in_batch == 0 {
            if let Some(f) = status_file {
                // write-ahead: if this process dies the supervisor re-runs this batch unit by unit
                let _ = std::fs::write(f, format!("{}\n", u));
            }
        }
        in_batch = (in_batch + 1) % BATCH;
        let h = unit_history(ctx, u);
        if u < 2 {
            rep.sample(format!("G1/G6: {}", h.brief()));
        }
        c01_history(&h, mix(ctx.seed, u as u64), rep);
    }
    // G2: all sequences of 3 atoms with every query after every call
    let per = g2_alpha().len().pow(3);
    let g2_total = per * g2_sizes(ctx).len();
    let mut in_batch = 0;
    for g in ctx.units(g2_total) {
        let u = total + g;
        if in_batch == 0 {
            if let Some(f) = status_file {
                let _ = std::fs::write(f, format!("{}\n", u));
            }
        }
        in_batch = (in_batch + 1) % BATCH;
        let h = unit_history(ctx, u);
        if g == per / 2 {
            rep.sample(format!("G2 (all {} sequences of 3 calls, queries after each): {}", per, h.brief()));
        }
        c01_history(&h, u as u64, rep);
    }
    if let Some(f) = status_file {
        let _ = std::fs::write(f, "steady\n");
    }
    // steady state: thousands of small calls on a full scrollback (amortised cost)
    let n = ctx.scale(96, 640);
    for u in ctx.units(n) {
        let h = steady_history(ctx.seed, u);
        if u == 0 {
            rep.sample(format!("steady state: {}x{} limit {:?}: one call of {} chars, then {} small calls such as {:?}", h.cols, h.rows, h.limit, h.all_text().chars().count().min(999_999_999), h.calls.len() - 1, h.calls.get(1)));
        }
        c01_steady(&h, rep);
    }
    if let Some(f) = status_file {
        let _ = std::fs::write(f, "done\n");
    }
}

// ---- amortised cost: many small calls on a terminal whose scrollback is full ---------------------

/// history: one call that fills the scrollback well beyond the limit, then N small scrolling calls
pub fn steady_history(seed: u64, u: usize) -> History {
    let mut r = Rng::derive(seed, &[0xC01, 7, u as u64]);
    let limit = *r.pick(&[100usize, 1000, 10_000, 100_000, 100_000, 400_000]);
    let cols = r.range(1, 12);
    let rows = r.range(1, 5);
    let mut h = History::new(cols, rows, Some(limit));
    let fill = limit + limit / 3 + rows + 7;
    let unit = *r.pick(&["\n", "ab\r\n", "\x1bD"]);
    h.calls.push(Call::FeedStr(unit.repeat(fill)));
    let n = r.range(1500, 4000);
    let small = ["\n", "x\r\n", "\x1bD", "\x1b[S", "abc\r\n", "\x1bE", "\u{85}"];
    let which = r.below(small.len());
    for i in 0..n {
        let s = if r.chance(1, 8) { small[r.below(small.len())] } else { small[which] };
        if i % 2 == 0 {
            h.calls.push(Call::FeedStr(s.to_string()));
        } else {
            h.calls.push(Call::Feed(s.to_string()));
            h.calls.push(Call::FeedStr(String::new()));
        }
    }
    h
}

/// total CPU of the small calls and the work they request, with an amortised trim allowance
fn run_steady(h: &History) -> (u64, u64) {
    let mut vt = h.build();
    drop(apply(&mut vt, &h.calls[0], Handling::Consume));
    let (cols, rows) = vt.size();
    let limit = h.limit.unwrap_or(0) as u64;
    let mut w = 2 * limit + 1000;
    let t0 = cpu_ns();
    for c in &h.calls[1..] {
        if let Call::FeedStr(s) | Call::Feed(s) = c {
            // each character does O(cols + rows) work and scrolls at most one line; a trim costs
            // O(retained lines) but happens only once per limit/10 scrolled lines: 16 units per line
            w += s.chars().count() as u64 * (cols + rows + 16) as u64 + 4;
        }
        let out = apply(&mut vt, c, Handling::Consume);
        std::hint::black_box(&out);
    }
    (cpu_ns().saturating_sub(t0), w)
}

pub fn calibrate_here() {
    let npu = calibrate();
    NS_PER_UNIT.with(|n| n.set(npu));
}

pub fn c01_steady(h: &History, rep: &mut Report) {
    rep.evaluations += 1;
    rep.count("steady_state_sessions", 1);
    rep.count("calls", h.calls.len() as u64);
    let npu = NS_PER_UNIT.with(|n| n.get());
    match guarded(|| run_steady(h)) {
        Guarded::Done((dt, w)) => {
            let budget = (5_000_000.0 + 200.0 * npu * w as f64) as u64;
            rep.key(mix(0x57EAD, (h.limit.unwrap_or(0) as u64) * 16 + (h.cols.min(3) * 4 + h.rows.min(3)) as u64));
            // head-room of the budget on this tree (evidence only)
            let pct = dt.saturating_mul(100) / budget.max(1);
            rep.count(if pct < 10 { "steady_sessions_using_under_10pct_of_budget" } else if pct < 50 { "steady_sessions_using_10_to_50pct_of_budget" } else { "steady_sessions_using_over_50pct_of_budget" }, 1);
            if npu > 0.0 && dt > EXAMINE_NS && dt > budget {
                let mut min_ns = dt;
                for _ in 0..3 {
                    if let Guarded::Done((d2, _)) = guarded(|| run_steady(h)) {
                        min_ns = min_ns.min(d2);
                    }
                }
                if min_ns > budget && min_ns > CONFIRM_NS {
                    rep.violation(
                        "C01",
                        format!(
                            "{} small calls on a terminal with a full scrollback (limit {}) took {:.3}s of CPU (minimum of 4 runs) against a work-proportional budget of {:.3}s: the cost per call grows with the retained scrollback",
                            h.calls.len() - 1, h.limit.unwrap_or(0), min_ns as f64 / 1e9, budget as f64 / 1e9
                        ),
                        h,
                    );
                } else {
                    rep.count("cost_suspects_not_confirmed", 1);
                }
            }
        }
        Guarded::AvtPanic(msg, loc) => rep.violation("C01", format!("panic at {}: {}", loc, msg), h),
        Guarded::HarnessPanic(msg, loc) => rep.inconclusive(format!("harness panic at {}: {}", loc, msg)),
    }
}

/// Miri shard: a few hundred small hostile histories (no cost monitor, no process tricks)
pub fn work_miri(ctx: &Ctx, rep: &mut Report) {
    let n = 20 * ctx.nshards;
    let t0 = std::time::Instant::now();
    for u in ctx.units(n) {
        // the interpreter is ~10^4 times slower: no counts of 65535 and no parameters beyond 16 bits
        // (they wrap to arbitrary counts) here - the natively compiled tiers cover those; and a
        // wall-clock budget per shard, whose exhaustion only shortens the shard (it is reported)
        if t0.elapsed().as_secs() > 900 {
            rep.count("miri_histories_not_started_within_the_shard_budget", 1);
            continue;
        }
        let mut r = Rng::derive(ctx.seed, &[0xC01, 9, u as u64]);
        let prof = Profile::general().with(T_SOUP, 3).with(T_MALFORMED, 3).boost(&[T_ALT], 3).resizes(20).huge(0).size(9, 5).length((1, 5), (1, 4)).big(0);
        let h = gen::history(&mut r, &prof);
        rep.evaluations += 1;
        rep.count("miri_histories_run", 1);
        match guarded(|| {
            run(&h, u as u64, true);
            run_collector(&h)
        }) {
            Guarded::Done(_) => {}
            Guarded::AvtPanic(msg, loc) => rep.violation("C01", format!("panic at {}: {}", loc, msg), &h),
            Guarded::HarnessPanic(msg, loc) => rep.inconclusive(format!("harness panic at {}: {}", loc, msg)),
        }
    }
    rep.count("miri_histories", ctx.units(n).count() as u64);
}
