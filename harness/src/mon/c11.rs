//! C11: dump() reproduces the terminal for all future input.  Two real terminals side by side:
//! the original and a fresh one of the same size fed `orig.dump()`; both then receive the remainder
//! of the cut input and a continuation (probe script or random), compared after every call.
//! Divergences whose dump-time state satisfies a known-finding predicate (DESIGN §5 C11) are filed
//! as known findings, everything else is a violation.

use crate::calls::{apply, Handling};
use crate::gen::{self, Profile, *};
use crate::hist::{Call, History};
use crate::report::Report;
use crate::rng::{mix, Rng};
use crate::run::{guarded, Ctx, Guarded};
use crate::snap::{diff_hidden, hidden, Snap};
use avt::verif::VerifState;
use avt::Vt;

/// Which known finding (if any) the state at dump time belongs to.
pub fn known_class(hs: &VerifState, cursor_row: usize) -> Option<&'static str> {
    // C11-d: the dump addresses the cursor and run-length-encodes with 16-bit parameters; on a screen
    // of 65535 or more columns / rows positions and runs beyond that cannot be expressed (the
    // wrap-pending column of a 65535-column screen is already parameter 65536)
    if hs.cols >= 65535 || hs.rows >= 65535 {
        return Some("C11-d");
    }
    // C11-b: a resize happened while the alternate screen was showing; the parked primary buffer
    // is re-wrapped lazily and dump() emits it in its stale geometry
    if hs.alternate_active && (hs.other_buffer.cols, hs.other_buffer.rows) != (hs.cols, hs.rows) {
        return Some("C11-b");
    }
    let out = hs.origin_mode && (cursor_row < hs.top_margin || cursor_row > hs.bottom_margin);
    if out {
        let s = &hs.saved_ctx;
        // the restore (CSI u) clobbers a mode the rest of the script never re-establishes
        if !s.origin_mode || (!s.auto_wrap_mode && hs.auto_wrap_mode) {
            return Some("C11-a");
        }
        // CUU/CUD from the saved row stop at the margin: the cursor ends on the wrong row
        let blocked = (cursor_row > hs.bottom_margin && hs.bottom_margin >= s.cursor_row)
            || (cursor_row < hs.top_margin && hs.top_margin <= s.cursor_row);
        if blocked {
            return Some("C11-c");
        }
    }
    None
}

fn visible_diff(a: &Vt, b: &Vt) -> Option<String> {
    let (sa, sb) = (Snap::of(a), Snap::of(b));
    if let Some(d) = sa.diff_visible(&sb) {
        return Some(d);
    }
    // hidden state in canonical form: only what some continuation input can make visible
    let (mut ha, mut hb) = (hidden(a), hidden(b));
    for h in [&mut ha, &mut hb] {
        // scrollback is not part of the dump
        h.buffer.len = 0;
        h.other_buffer.len = 0;
        h.scrollback_limit = None;
        h.buffer.scrollback_limit = None;
        h.other_buffer.scrollback_limit = None;
        // a parked screen's saved position is clamped to the screen when that screen is shown again
        h.other_saved_ctx.cursor_col = h.other_saved_ctx.cursor_col.min(h.cols - 1);
        h.other_saved_ctx.cursor_row = h.other_saved_ctx.cursor_row.min(h.rows - 1);
        // parameters are only read by sequences without intermediates: dead once one is collected
        if let Some(p) = h.parser.as_mut() {
            use avt::parser::State::*;
            if matches!(p.state, EscapeIntermediate | CsiIntermediate | DcsIntermediate | DcsParam | DcsEntry) {
                p.params.clear();
                p.cur_param = 0;
            }
        }
    }
    if !ha.alternate_active {
        // a parked alternate buffer is discarded on the next entry
        ha.other_buffer = hb.other_buffer.clone();
    }
    diff_hidden(&ha, &hb)
}

pub enum Outcome {
    Same,
    Differ { at: usize, what: String, class: Option<&'static str> },
}

/// `h.calls[..dump_at]` build the original; the rest is fed to both.
pub fn round_trip(h: &History, dump_at: usize, rep: &mut Report) -> Outcome {
    let mut orig = h.build();
    for c in &h.calls[..dump_at] {
        drop(apply(&mut orig, c, Handling::Consume));
    }
    let hs = orig.verif_state();
    let cur = orig.cursor();
    let class = known_class(&hs, cur.row);
    let d = orig.dump();
    let (c, r) = orig.size();
    let mut rest = {
        let mut b = Vt::builder();
        b.size(c, r);
        if let Some(l) = h.limit {
            b.scrollback_limit(l);
        }
        b.build()
    };
    drop(rest.feed_str(&d));
    // evidence: what kind of state was dumped
    let pstate = hs.parser.as_ref().map(|p| p.state as u64).unwrap_or(0);
    let modes = (hs.alternate_active as u64)
        | (hs.origin_mode as u64) << 1
        | (!hs.auto_wrap_mode as u64) << 2
        | (hs.insert_mode as u64) << 3
        | (hs.new_line_mode as u64) << 4
        | (hs.cursor_keys_app_mode as u64) << 5
        | (!cur.visible as u64) << 6
        | (hs.pending_wrap as u64) << 7
        | ((hs.charsets_drawing != [false, false] || hs.active_charset != 0) as u64) << 8;
    let shape = ((hs.top_margin > 0) as u64) | ((hs.bottom_margin + 1 < hs.rows) as u64) << 1;
    let saved = ((hs.saved_ctx.cursor_col != 0 || hs.saved_ctx.cursor_row != 0 || !hs.saved_ctx.auto_wrap_mode || hs.saved_ctx.origin_mode) as u64)
        | ((hs.other_saved_ctx.cursor_col != 0 || hs.other_saved_ctx.cursor_row != 0 || !hs.other_saved_ctx.auto_wrap_mode || hs.other_saved_ctx.origin_mode) as u64) << 1;
    let tabs_custom = hs.tabs != (8..hs.cols).step_by(8).collect::<Vec<_>>();
    rep.key(mix(mix(pstate, modes), shape * 16 + saved * 4 + (tabs_custom as u64) * 2 + class.is_some() as u64));
    rep.count("round_trips", 1);
    if pstate != 0 {
        rep.count("dumps_with_parser_inside_a_sequence", 1);
    }
    if hs.alternate_active {
        rep.count("dumps_on_alternate_screen", 1);
    }
    if class.is_some() {
        rep.count("dumps_in_a_known_finding_state", 1);
    }
    if let Some(w) = visible_diff(&orig, &rest) {
        return Outcome::Differ { at: dump_at, what: format!("right after restoring: {}", w), class };
    }
    for (i, c) in h.calls[dump_at..].iter().enumerate() {
        drop(apply(&mut orig, c, Handling::Consume));
        drop(apply(&mut rest, c, Handling::Consume));
        if let Some(w) = visible_diff(&orig, &rest) {
            return Outcome::Differ { at: dump_at + i + 1, what: format!("after continuation call {} {:?}: {}", i, c, w), class };
        }
    }
    Outcome::Same
}

pub fn c11_history(h: &History, rep: &mut Report) {
    let dump_at = match h.meta_get("dump_at") {
        Some(a) if a <= h.calls.len() => a,
        _ => return,
    };
    rep.evaluations += 1;
    let res = guarded(|| round_trip(h, dump_at, rep));
    match res {
        Guarded::Done(Outcome::Same) => {}
        Guarded::Done(Outcome::Differ { at, what, class }) => {
            let mut cut = h.clone();
            cut.calls.truncate(at);
            match class {
                Some(id) => rep.known_finding(id, format!("{} | {}", what.chars().take(160).collect::<String>(), cut.brief())),
                None => rep.violation("C11", what, &cut),
            }
        }
        Guarded::AvtPanic(..) => rep.count_s("foreign_divergence[C01]".into(), 1),
        Guarded::HarnessPanic(m, l) => rep.inconclusive(format!("harness panic at {}: {} on {}", l, m, h.brief())),
    }
}

pub fn probes() -> Vec<Vec<&'static str>> {
    let mut v = crate::mon::relmon::probes();
    v.push(vec![
        "m", "5;3H", "X", "\x1b\\", "\x07", "\rA", "\x1b[1;1HB", "\x1b[999;999HC", "DD", "\x1b[2;2H\x1b[L", "\n\n\n\n\n\n\n\nE", "\x1bM\x1bM\x1bM\x1bM\x1bM\x1bM\x1bM\x1bMF",
        "\r\t\t\tG\t\t\t\t\t\tH", "\x1b[2;1Hxyz\x1b[2;1Hq", "q\x0eq\x0fq", "\x1b8I", "\x1b[1;1HJ", "\x1b[999;999HKK", "\x1b[?1047hL\x1b8M\x1b[1;1HN\x1b[999;999HOO",
        "\x1b[?1047lP\x1b8Q", "\x1b[?6lR", "\x1b[r\x1b[5S",
    ]);
    v
}

/// the literal failing inputs of the three recorded findings (DESIGN §6 K1-K3) plus the 6x8
/// enumeration of the "restore saved cursor, then move relatively" dump branch
fn finding_cases() -> Vec<History> {
    let mut v = Vec::new();
    let mk = |cols: usize, rows: usize, pre: Vec<Call>, cont: Vec<&str>| {
        let mut h = History::new(cols, rows, None);
        h.calls = pre;
        h.meta.push(("dump_at".into(), h.calls.len()));
        for c in cont {
            h.calls.push(Call::FeedStr(c.to_string()));
        }
        h
    };
    // K1 (C11-a)
    v.push(mk(10, 8, vec![Call::FeedStr("\x1b[?6h\x1b[1;1H\x1b7\x1b[3;6r\x1b8\x1b[?1047h".into())], vec!["\x1b[1;1HX"]));
    // K3 (C11-c)
    v.push(mk(
        6,
        8,
        vec![Call::FeedStr("\x1b[?1047h\x1b[?6h\x1b[8;2H\x1b7\x1b[?6l\x1b[?1047l\x1b[?6h\x1b[1;3H\x1b7\x1b[3;5r\x1b8\x1b[?1047h".into())],
        vec!["Z"],
    ));
    // K2 (C11-b)
    v.push(mk(9, 4, vec![Call::FeedStr("\x1b[?47h".into()), Call::Resize(3, 6)], vec!["\x1b[999;999HOO\x1b[?1047lP"]));
    // enumeration of the dump branch on 6x8 with margins 3..5
    let (top, bot) = (2usize, 4usize);
    let mut salts: Vec<Option<(usize, bool, bool)>> = vec![None];
    for r in [0usize, 3, 7] {
        for o in [false, true] {
            for a in [false, true] {
                salts.push(Some((r, o, a)));
            }
        }
    }
    for salt in &salts {
        for rp in [0usize, 1, 5, 7] {
            for sp_awm in [true, false] {
                for cur_awm in [true, false] {
                    for end_alt in [false, true] {
                        for mv in ["", "\x1b[A", "\x1b[B", "\x1b[2C"] {
                            let mut s = String::new();
                            if let Some((r, o, a)) = salt {
                                s.push_str("\x1b[?1047h");
                                s.push_str(if *o { "\x1b[?6h" } else { "\x1b[?6l" });
                                s.push_str(&format!("\x1b[{};2H", r + 1));
                                s.push_str(if *a { "\x1b[?7h" } else { "\x1b[?7l" });
                                s.push_str("\x1b7\x1b[?7h\x1b[?6l\x1b[?1047l");
                            }
                            s.push_str("\x1b[r\x1b[?6h");
                            s.push_str(&format!("\x1b[{};3H", rp + 1));
                            s.push_str(if sp_awm { "\x1b[?7h" } else { "\x1b[?7l" });
                            s.push_str("\x1b7");
                            s.push_str(&format!("\x1b[{};{}r", top + 1, bot + 1));
                            s.push_str("\x1b8");
                            s.push_str(if cur_awm { "\x1b[?7h" } else { "\x1b[?7l" });
                            if end_alt {
                                s.push_str("\x1b[?1047h");
                            }
                            s.push_str(mv);
                            v.push(mk(
                                6,
                                8,
                                vec![Call::FeedStr(s)],
                                vec![
                                    "\rA", "\x1b[1;1HB", "\x1b[999;999HC", "DD", "\x1b[2;2H\x1b[L", "\n\n\n\n\n\n\n\nE", "\x1b8I", "\x1b[1;1HJ", "\x1b[999;999HKK",
                                    "\x1b[?1047hL\x1b8M\x1b[1;1HN\x1b[999;999HOO", "\x1b[?1047lP\x1b8Q\x1b[1;1HR\x1b[999;999HSS",
                                ],
                            ));
                        }
                    }
                }
            }
        }
    }
    v
}

pub fn work(ctx: &Ctx, rep: &mut Report) {
    // (a) the recorded findings and the enumerated dump branch: every case either round-trips or
    // is classified by the predicates
    let cases = finding_cases();
    for u in ctx.units(cases.len()) {
        c11_history(&cases[u], rep);
    }
    if ctx.shard == 0 {
        rep.count("enumerated_dump_branch_cases", cases.len() as u64);
    }
    // (b) random histories cut at a random character, then remainder + continuation
    let prof = Profile::general()
        .boost(&[T_ALT, T_SAVE, T_MODE, T_STBM, T_TABS, T_CHARSET], 2)
        .with(T_SGR, 10)
        .with(T_MALFORMED, 3)
        .with(T_STR, 3)
        .with(T_RIS, 1)
        .resizes(6);
    let cprof = Profile::general().resizes(0).length((1, 3), (1, 6));
    let pr = probes();
    let n = ctx.scale(150_000, 4_000_000);
    for u in ctx.units(n) {
        let mut r = Rng::derive(ctx.seed, &[0xC11, 1, u as u64]);
        let mut h = gen::history(&mut r, &prof);
        // cut the last feed call at a random character
        let mut remainder = String::new();
        if let Some(Call::FeedStr(s)) | Some(Call::Feed(s)) = h.calls.last().cloned() {
            let n = s.chars().count();
            if n > 1 && r.chance(2, 3) {
                let cut = r.range(1, n - 1);
                let a: String = s.chars().take(cut).collect();
                remainder = s.chars().skip(cut).collect();
                *h.calls.last_mut().unwrap() = Call::FeedStr(a);
            }
        }
        h.meta.push(("dump_at".into(), h.calls.len()));
        if !remainder.is_empty() {
            h.calls.push(Call::FeedStr(remainder));
        }
        if r.chance(2, 3) {
            for p in &pr[r.below(pr.len())] {
                h.calls.push(Call::FeedStr(p.to_string()));
            }
        } else {
            h.calls.extend(gen::history(&mut r, &cprof).calls);
        }
        if u < 2 {
            rep.sample(format!("dump after call {}: {}", h.meta[0].1, h.brief()));
        }
        c11_history(&h, rep);
    }
    // (d) state product: every combination of 14 mode/state bits x 4 x 4 saved-context kinds
    {
        let total = crate::workloads::state_count();
        let stride = if ctx.thorough { 1 } else { 8 };
        let sizes = [(7usize, 4usize), (3, 2), (12, 5)];
        let mut u = ctx.shard * stride + (ctx.seed as usize % stride);
        let mut done = 0u64;
        while u < total {
            let (c, r) = sizes[(u / 7) % sizes.len()];
            let mut h = History::new(c, r, None);
            h.calls.push(Call::FeedStr(crate::workloads::state_script(u, c, r)));
            h.meta.push(("dump_at".into(), 1));
            for p in &pr[u % pr.len()] {
                h.calls.push(Call::FeedStr(p.to_string()));
            }
            if done == 3 {
                rep.sample(format!("state product ({} of {} combinations): {}", total / stride, total, h.brief()));
            }
            c11_history(&h, rep);
            done += 1;
            u += stride * ctx.nshards;
        }
        rep.count("state_product_round_trips", done);
    }
    // (e) parameter lists around the caps (32 parameters, 6 sub-parameters, 65535), cut at EVERY
    // position: the dump has to carry whatever the parser remembers about an over-long list
    {
        let mut seqs: Vec<String> = Vec::new();
        for n in [31usize, 32, 33, 34, 35, 40] {
            let list: Vec<String> = (0..n).map(|i| ((i * 7 + 3) % 10).to_string()).collect();
            let modes: Vec<String> = (0..n).map(|i| ["4", "20", "3", "6"][i % 4].to_string()).collect();
            let dec: Vec<String> = (0..n).map(|i| ["25", "7", "6", "1", "12"][i % 5].to_string()).collect();
            seqs.push(format!("\x1b[{}m", list.join(";")));
            seqs.push(format!("\u{9b}{}h", modes.join(";")));
            seqs.push(format!("\x1b[{}l", modes.join(";")));
            seqs.push(format!("\x1b[?{}h", dec.join(";")));
            seqs.push(format!("\x1b[?{}l", dec.join(";")));
            seqs.push(format!("\x1bP{}q", list.join(";")));
        }
        for k in [5usize, 6, 7, 8] {
            seqs.push(format!("\x1b[38{}m", ":7".repeat(k)));
            seqs.push(format!("\x1b[1;38:2{};4m", ":9".repeat(k)));
        }
        seqs.push("\x1b[65535;65536;99999999999H".into());
        seqs.push("\x1b[1;2;3;4;5;6;7;8;9;10;11;12;13;14;15;16;17;18;19;20;21;22;23;24;25;26;27;28;29;30;31;32;33H".into());
        let mut units: Vec<(usize, usize)> = Vec::new();
        for (si, sq) in seqs.iter().enumerate() {
            for cut in 0..=sq.chars().count() {
                units.push((si, cut));
            }
        }
        for u in ctx.units(units.len()) {
            let (si, cut) = units[u];
            let chars: Vec<char> = seqs[si].chars().collect();
            let mut h = History::new(9, 4, None);
            h.calls.push(Call::FeedStr(format!("ab\x1b[2;2H{}", chars[..cut].iter().collect::<String>())));
            h.meta.push(("dump_at".into(), 1));
            h.calls.push(Call::FeedStr(chars[cut..].iter().collect()));
            for p in ["X", "\r\nY\x1b[KZ", "\x1b[1;1HQ", "\x1b[999;999HWW", "abc\x1b[2;2Hd"] {
                h.calls.push(Call::FeedStr(p.to_string()));
            }
            c11_history(&h, rep);
        }
        if ctx.shard == 0 {
            rep.count("cuts_of_capped_parameter_lists", units.len() as u64);
        }
    }
    // (f) screens beyond 2^16 in one dimension (kept tiny in the other)
    {
        let cases: Vec<(usize, usize, &str)> = vec![
            (65560, 2, "\x1b[41m\x1b[2J\x1b[m\x1b[1;1H\x1b[65535C\x1b[20Cq"),
            (70000, 1, "\x1b[1;32mxy\x1b[65535bz"),
            (2, 65560, "a\x1b[65535B\x1b[20Bq"),
            (65536, 1, "\x1b[44m\x1b[K\x1b[65535C\x1b[Cq"),
            (65535, 2, "\x1b[41m\x1b[2J\x1b[m\x1b[1;65535Hq"),
            (2, 65535, "a\x1b[65535;2Hq"),
        ];
        for u in ctx.units(cases.len()) {
            let (c, r, input) = cases[u];
            let mut h = History::new(c, r, None);
            h.calls.push(Call::FeedStr(input.to_string()));
            h.meta.push(("dump_at".into(), 1));
            h.calls.push(Call::FeedStr("Z".into()));
            h.calls.push(Call::FeedStr("\x1b[1;1HQ".into()));
            c11_history(&h, rep);
            rep.count("round_trips_on_screens_beyond_65535", 1);
        }
    }
    // (c) every cut of short histories (also inside ESC/CSI/DCS/OSC and parameter lists)
    let m = ctx.scale(2000, 30_000);
    let sprof = Profile::general().boost(&[T_SGR, T_MODE, T_STR, T_MALFORMED, T_ALT, T_SAVE], 3).resizes(0).length((1, 1), (2, 5)).size(8, 4);
    for u in ctx.units(m) {
        let mut r = Rng::derive(ctx.seed, &[0xC11, 3, u as u64]);
        let base = gen::history(&mut r, &sprof);
        let s: Vec<char> = base.all_text().chars().collect();
        if s.len() > 80 {
            continue;
        }
        let script: Vec<&'static str> = pr[r.below(pr.len())].clone();
        for cut in 0..=s.len() {
            let mut h = History::new(base.cols, base.rows, base.limit);
            h.calls.push(Call::FeedStr(s[..cut].iter().collect()));
            h.meta.push(("dump_at".into(), 1));
            h.calls.push(Call::FeedStr(s[cut..].iter().collect()));
            for p in script.iter().take(8) {
                h.calls.push(Call::FeedStr(p.to_string()));
            }
            c11_history(&h, rep);
            rep.count("cuts_of_short_histories", 1);
        }
    }
}
