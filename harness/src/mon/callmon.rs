//! Call-level monitors on the real public API: C02 (geometry invariants after every call),
//! C13 (scrollback bound), C15 (changed-line reports are sound).

use crate::calls::{apply, Handling, Outcome};
use crate::gen::{self, Profile, *};
use crate::hist::{Call, History};
use crate::model::parser::PModel;
use crate::model::term::MLine;
use crate::report::Report;
use crate::rng::{mix, Rng};
use crate::run::{guarded, Ctx, Guarded};
use crate::workloads::*;
use avt::util::TextUnwrapper;
use avt::Vt;

fn limit_class(l: Option<usize>) -> u64 {
    match l {
        None => 0,
        Some(0) => 1,
        Some(1..=9) => 2,
        Some(_) => 3,
    }
}

// ------------------------------------------------------------------------------------------ C02

pub fn c02_after(vt: &Vt, requested: (usize, usize), out: &Outcome) -> Option<String> {
    let (cols, rows) = requested;
    if vt.size() != requested {
        return Some(format!("size() = {:?}, last requested {:?}", vt.size(), requested));
    }
    let lines = vt.lines();
    let view = vt.view();
    if view.len() != rows {
        return Some(format!("view() has {} lines, rows = {}", view.len(), rows));
    }
    if lines.len() < rows {
        return Some(format!("lines() has {} lines < rows = {}", lines.len(), rows));
    }
    let tail = &lines[lines.len() - rows..];
    // (by content: the same cells and soft-wrap marks, wherever they are stored)
    if let Some(i) = (0..rows).find(|i| tail[*i].cells() != view[*i].cells() || TextUnwrapper::new().push(&tail[*i]).is_none() != TextUnwrapper::new().push(&view[*i]).is_none()) {
        return Some(format!("view() is not the tail of lines(): row {} differs", i));
    }
    for (i, l) in lines.iter().enumerate() {
        if l.len() != cols || l.cells().len() != cols {
            return Some(format!("line {} of lines() has {} cells, cols = {}", i, l.len(), cols));
        }
    }
    if TextUnwrapper::new().push(lines.last().unwrap()).is_none() {
        return Some("the last line is marked soft-wrapped".into());
    }
    let c = vt.cursor();
    if c.row >= rows {
        return Some(format!("cursor row {} >= rows {}", c.row, rows));
    }
    if c.col > cols {
        return Some(format!("cursor col {} > cols {}", c.col, cols));
    }
    for n in 0..rows {
        if vt.line(n).cells() != view[n].cells() {
            return Some(format!("line({}) differs from view()[{}]", n, n));
        }
    }
    if let Some(ls) = &out.lines {
        for w in ls.windows(2) {
            if w[0] >= w[1] {
                return Some(format!("changed-line indices not strictly increasing: {:?}", ls));
            }
        }
        if let Some(bad) = ls.iter().find(|i| **i >= rows) {
            return Some(format!("changed-line index {} >= rows {}", bad, rows));
        }
    }
    // hooked invariants the anchor states
    let h = vt.verif_state();
    if h.pending_wrap != (c.col == cols) {
        return Some(format!("pending_wrap = {} but cursor col {} of {}", h.pending_wrap, c.col, cols));
    }
    if (h.buffer.cols, h.buffer.rows, h.buffer.len) != (cols, rows, lines.len()) {
        return Some(format!("active buffer geometry {:?} vs terminal {}x{} / {} lines", h.buffer, cols, rows, lines.len()));
    }
    if (h.cols, h.rows) != (cols, rows) {
        return Some(format!("terminal cols/rows {}x{} vs requested {}x{}", h.cols, h.rows, cols, rows));
    }
    if h.bottom_margin >= rows || h.top_margin > h.bottom_margin {
        return Some(format!("margins {}..{} outside a {}-row screen", h.top_margin, h.bottom_margin, rows));
    }
    if h.dirty_lines.iter().any(|i| *i >= rows) {
        return Some(format!("dirty rows {:?} beyond rows {}", h.dirty_lines, rows));
    }
    if h.tabs.iter().any(|t| *t >= cols) || h.tabs.windows(2).any(|w| w[0] >= w[1]) {
        return Some(format!("tab stops {:?} not sorted/unique/< cols {}", h.tabs, cols));
    }
    // (whether a saved position is clamped at the resize or at the restore is not promised: the
    // restored cursor is what C02 / C17 constrain, and every restore is followed by the checks above)
    // the inactive buffer is internally consistent with its own recorded geometry
    let ol = vt.verif_other_lines();
    if ol.len() != h.other_buffer.len || ol.len() < h.other_buffer.rows || ol.iter().any(|l| l.len() != h.other_buffer.cols) {
        return Some(format!("inactive buffer inconsistent: {:?}, {} lines", h.other_buffer, ol.len()));
    }
    if ol.last().map(|l| l.verif_wrapped()).unwrap_or(false) {
        return Some("the inactive buffer's last line is marked soft-wrapped".into());
    }
    None
}

fn exec_history<T>(h: &History, rep: &mut Report, prop: &str, f: impl FnOnce(&mut Report) -> Option<T>) -> Option<T> {
    match guarded(|| f(rep)) {
        Guarded::Done(v) => v,
        Guarded::AvtPanic(msg, loc) => {
            if prop == "C01" {
                rep.violation("C01", format!("panic at {}: {}", loc, msg), h);
            } else {
                rep.count_s("foreign_divergence[C01]".into(), 1);
            }
            None
        }
        Guarded::HarnessPanic(msg, loc) => {
            rep.inconclusive(format!("harness panic at {}: {} on {}", loc, msg, h.brief()));
            None
        }
    }
}

pub fn c02_history(h: &History, seed: u64, rep: &mut Report) {
    rep.evaluations += 1;
    let hh = h.clone();
    let res = exec_history(h, rep, "C02", |rep| {
        let mut r = Rng::new(seed);
        let mut vt = hh.build();
        let mut requested = (hh.cols, hh.rows);
        if let Some(d) = c02_after(&vt, requested, &Outcome::default()) {
            return Some((0usize, format!("on the fresh terminal: {}", d)));
        }
        for (i, call) in hh.calls.iter().enumerate() {
            let before = vt.size();
            let alt = vt.verif_state().alternate_active;
            if let Call::Resize(c, rw) = call {
                requested = (*c, *rw);
            }
            let out = apply(&mut vt, call, Handling::pick(&mut r));
            rep.count("calls", 1);
            if let Some(d) = c02_after(&vt, requested, &out) {
                return Some((i + 1, format!("after call {} ({:?}): {}", i, call, d)));
            }
            let kind = match call {
                Call::FeedStr(_) => 0u64,
                Call::Feed(_) => 1,
                Call::Resize(c, rw) => {
                    rep.count("resizes", 1);
                    if alt {
                        rep.count("resizes_on_alternate_screen", 1);
                    }
                    2 + (c.cmp(&before.0) as i8 + 1) as u64 * 3 + (rw.cmp(&before.1) as i8 + 1) as u64
                }
            };
            let c = vt.cursor();
            let hs = vt.verif_state();
            let k = mix(
                mix(kind, limit_class(hh.limit) * 16 + (alt as u64) * 8 + (hs.alternate_active as u64) * 4 + ((c.col == requested.0) as u64) * 2 + (vt.lines().len() > requested.1) as u64),
                ((requested.0.min(3)) * 4 + requested.1.min(3)) as u64 * 4 + (hs.other_buffer.cols != requested.0 || hs.other_buffer.rows != requested.1) as u64,
            );
            rep.key(k);
        }
        None
    });
    if let Some((n, msg)) = res {
        let mut cut = h.clone();
        cut.calls.truncate(n);
        rep.violation("C02", msg, &cut);
    }
}

const C02_RESIZE_ATOMS: &[&str] = &["@resize 1 1", "@resize 2 3", "@resize 5 2", "@resize 3 1", "@resize 1 4", "@resize 4 4"];

pub fn atom_call(a: &str) -> Call {
    if let Some(rest) = a.strip_prefix("@resize ") {
        let mut p = rest.split(' ');
        Call::Resize(p.next().unwrap().parse().unwrap(), p.next().unwrap().parse().unwrap())
    } else {
        Call::FeedStr(a.to_string())
    }
}

pub fn work_c02(ctx: &Ctx, rep: &mut Report) {
    // G1 with heavy resize / alternate-screen / save-restore mixing
    let prof = Profile::general().boost(&[T_ALT], 5).boost(&[T_SAVE], 3).resizes(28).length((2, 12), (1, 6));
    let n = ctx.scale(200_000, 6_000_000);
    for u in ctx.units(n) {
        let mut r = Rng::derive(ctx.seed, &[0xC02, 1, u as u64]);
        let h = gen::history(&mut r, &prof);
        if u < 2 {
            rep.sample(format!("G1: {}", h.brief()));
        }
        c02_history(&h, mix(ctx.seed, u as u64), rep);
    }
    // bigger screens, long wrapped lines, narrowing with the cursor deep in a wrapped line
    let prof2 = Profile::general().with(T_TEXT, 60).resizes(35).size(60, 20).length((3, 10), (1, 5)).boost(&[T_ALT], 3);
    let n2 = ctx.scale(30_000, 1_000_000);
    for u in ctx.units(n2) {
        let mut r = Rng::derive(ctx.seed, &[0xC02, 2, u as u64]);
        let h = gen::history(&mut r, &prof2);
        c02_history(&h, mix(ctx.seed, u as u64), rep);
    }
    // extreme dimensions: "all sizes" includes widths / heights at and beyond 2^16 (such a screen is
    // only ~1e5 cells as long as the other dimension is tiny)
    // (wide and tall families are kept apart: re-wrapping 65536 columns into 1 is quadratic in the
    // pinned algorithm, see DESIGN 11)
    let wide: &[(usize, usize)] = &[(65535, 1), (65536, 1), (65537, 2), (100_000, 1), (131_073, 1), (65536, 3), (65560, 2)];
    let tall: &[(usize, usize)] = &[(1, 65535), (1, 65536), (2, 65560), (1, 70_000), (3, 131_072), (2, 65537)];
    let mut pairs: Vec<((usize, usize), (usize, usize))> = Vec::new();
    for fam in [wide, tall] {
        for a in fam {
            for b in fam {
                pairs.push((*a, *b));
            }
        }
    }
    for u in ctx.units(pairs.len()) {
        let (a, b) = pairs[u];
        let mut h = History::new(a.0, a.1, if u % 2 == 0 { None } else { Some(5) });
        h.calls.push(Call::FeedStr("ab\r\ncd\x1b[2;2Hxyz\x1b[999999;999999Hq".into()));
        h.calls.push(Call::Resize(b.0, b.1));
        h.calls.push(Call::FeedStr("\x1b[?1049hA\x1b[65535;65535Hz".into()));
        h.calls.push(Call::Resize(b.0 + 1, b.1 + 1));
        h.calls.push(Call::FeedStr("\x1b[?1049lB".into()));
        h.calls.push(Call::Resize(a.0, a.1));
        c02_history(&h, u as u64, rep);
        rep.count("extreme_dimension_histories", 1);
    }
    // G2 with resize atoms: all sequences of k atoms
    let mut alpha: Vec<&'static str> = g2_alphabet("general");
    alpha.extend_from_slice(C02_RESIZE_ATOMS);
    let k = ctx.scale(3, 3);
    let sizes: &[(usize, usize)] = if ctx.thorough { G2_SIZES } else { &[(1, 1), (2, 2), (3, 2), (4, 3), (1, 3)] };
    let per = alpha.len().pow(k as u32);
    for u in ctx.units(per * sizes.len()) {
        let size = sizes[u / per];
        let mut idx = u % per;
        let mut h = History::new(size.0, size.1, if u % 3 == 0 { Some(1) } else { None });
        for _ in 0..k {
            h.calls.push(atom_call(alpha[idx % alpha.len()]));
            idx /= alpha.len();
        }
        if u == per / 2 {
            rep.sample(format!("G2 (all {} sequences of {} atoms incl. resizes): {}", per, k, h.brief()));
        }
        c02_history(&h, u as u64, rep);
    }
    // the clause "col == cols only as the wrap-pending position reached by printing in the last
    // column with auto-wrap on": per-character differential run, pending-related divergences
    crate::mon::diffmon::work(ctx, rep, (10_000, 200_000), (0, 0), false);
}

// ------------------------------------------------------------------------------------------ C13

pub fn c13_after(vt: &Vt, limit: Option<usize>) -> Option<String> {
    let (_, rows) = vt.size();
    let n = vt.lines().len();
    let hs = vt.verif_state();
    let alt = hs.alternate_active;
    // the configured limit never drifts: the primary buffer trims at (L, L + L/10), the alternate at 0
    let (prim, alt_buf) = if alt { (&hs.other_buffer, &hs.buffer) } else { (&hs.buffer, &hs.other_buffer) };
    if let Some(d) = c13_limits(&prim.scrollback_limit, limit) {
        return Some(d);
    }
    if !matches!(alt_buf.scrollback_limit, Some((_, 0))) {
        return Some(format!("the alternate buffer's (soft, hard) limits are {:?}: it would retain rows above the view", alt_buf.scrollback_limit));
    }
    if alt {
        if n != rows {
            return Some(format!("alternate screen showing: lines() has {} lines, rows = {}", n, rows));
        }
        return None;
    }
    if let Some(l) = limit {
        let bound = rows + l + l / 10;
        if l == 0 && n != rows {
            return Some(format!("limit 0: lines() has {} lines, rows = {}", n, rows));
        }
        if n > bound {
            return Some(format!("limit {}: lines() has {} lines > rows {} + L + L/10 = {}", l, n, rows, bound));
        }
    }
    None
}

/// The threshold the primary buffer trims at may never exceed what the property allows to be retained
/// (a buffer that trims *earlier* keeps the bound; whether it then loses lines is C14's question).
fn c13_limits(actual: &Option<(usize, usize)>, limit: Option<usize>) -> Option<String> {
    let l = limit?;
    match actual {
        None => Some(format!("configured limit {} but the primary buffer trims nothing", l)),
        Some((_, hard)) if *hard > l + l / 10 => Some(format!("the primary buffer only trims beyond {} retained lines, configured limit {} allows L + L/10 = {}", hard, l, l + l / 10)),
        _ => None,
    }
}

/// Limits far beyond what a session can fill in a quick run: the trim threshold is read through the
/// hook right after building; when it is too high the breach is then produced for real on a 1x1 screen.
pub fn c13_large_limits(ctx: &Ctx, rep: &mut Report) {
    let mut ls: Vec<usize> = (0..=2048).collect();
    for j in 3..=7u32 {
        for k in 1..=9usize {
            for d in [0usize, 1, 5, 9] {
                ls.push(k * 10usize.pow(j) + d);
                ls.push(k * 10usize.pow(j) - 1 - d);
            }
        }
    }
    for j in 11..=26u32 {
        for d in [-1i64, 0, 1, 9] {
            ls.push(((1i64 << j) + d) as usize);
        }
    }
    let mut r = Rng::derive(ctx.seed, &[0xC13, 7]);
    for _ in 0..ctx.scale(20_000, 400_000) {
        let top = *r.pick(&[1usize << 14, 1 << 18, 1 << 21, 1 << 22, 1 << 24, 1 << 26]);
        ls.push(r.range(2048, top));
    }
    let mut done = 0u64;
    let mut bad: Vec<(usize, usize, String)> = Vec::new();
    for u in ctx.units(ls.len()) {
        let l = ls[u];
        let mut b = Vt::builder();
        b.size(1, 1);
        b.scrollback_limit(l);
        let vt = b.build();
        done += 1;
        rep.evaluations += 1;
        let hs = vt.verif_state();
        if let Some(d) = c13_limits(&hs.buffer.scrollback_limit, Some(l)) {
            let hard = hs.buffer.scrollback_limit.map(|x| x.1).unwrap_or(usize::MAX);
            bad.push((l, hard, d));
        }
        rep.key(mix(0xC13_77, (l.min(4096) as u64) << 8 | (64 - (l as u64).leading_zeros() as u64)));
    }
    bad.sort();
    if let Some((l, hard, d)) = bad.first().cloned() {
        // produce the breach for the smallest affected limit
        let hard = hard.min(l + l / 10 + 1000);
        let mut h = History::new(1, 1, Some(l));
        // exactly `hard` scrolled lines are still retained when the call returns
        let mut left = hard;
        while left > 0 {
            let n = left.min(1 << 20);
            h.calls.push(Call::FeedStr("\n".repeat(n)));
            left -= n;
        }
        let mut witnessed = None;
        if l <= 8_000_000 {
            let mut vt = h.build();
            for c in &h.calls {
                drop(apply(&mut vt, c, Handling::Consume));
                let n = vt.lines().len();
                if n > 1 + l + l / 10 {
                    witnessed = Some(n);
                    break;
                }
            }
        }
        let msg = match witnessed {
            Some(n) => format!("limit {} on a 1x1 screen: {}; after {} line feeds lines() holds {} lines > 1 + L + L/10 = {} ({} limits of this shard's sweep are affected)", l, d, hard, n, 1 + l + l / 10, bad.len()),
            None => format!("limit {} on a 1x1 screen: {} ({} limits of this shard's sweep are affected)", l, d, bad.len()),
        };
        rep.violation("C13", msg, &h);
    }
    rep.count("limits_read_back_through_the_hook", done);
}

pub fn c13_history(h: &History, seed: u64, rep: &mut Report) {
    rep.evaluations += 1;
    let hh = h.clone();
    let res = exec_history(h, rep, "C13", |rep| {
        let mut r = Rng::new(seed);
        let mut vt = hh.build();
        for (i, call) in hh.calls.iter().enumerate() {
            let handling = Handling::pick(&mut r);
            let before = vt.lines().len();
            let out = apply(&mut vt, call, handling);
            if out.lines.is_none() {
                continue; // feed(): the property is about feed_str and resize
            }
            rep.count("calls", 1);
            if let Some(d) = c13_after(&vt, hh.limit) {
                return Some((i + 1, format!("after call {} ({:?} handling): {}", i, handling, d)));
            }
            let after = vt.lines().len();
            let alt = vt.verif_state().alternate_active;
            if alt {
                rep.count("calls_on_alternate_screen", 1);
            }
            if !out.drained.is_empty() {
                rep.count("calls_that_handed_out_scrollback", 1);
            }
            let trimmed = !out.drained.is_empty() || (handling != Handling::Consume && after < before);
            if trimmed {
                rep.count("calls_that_trimmed", 1);
            }
            let over = match out.drained.len() {
                0 => 0,
                1 => 1,
                2..=10 => 2,
                _ => 3,
            };
            let kind = matches!(call, Call::Resize(..)) as u64;
            rep.key(mix(mix(hh.limit.map(|l| l as u64 + 1).unwrap_or(0), handling.class() * 8 + kind * 4 + (alt as u64) * 2 + trimmed as u64), over));
        }
        None
    });
    if let Some((n, msg)) = res {
        let mut cut = h.clone();
        cut.calls.truncate(n);
        rep.violation("C13", msg, &cut);
    }
}

pub fn work_c13(ctx: &Ctx, rep: &mut Report) {
    // long sessions with heavy scrolling under finite limits
    let prof = Profile::general()
        .with(T_TEXT, 50)
        .with(T_C0, 40)
        .with(T_LINES, 14)
        .with(T_ALT, 4)
        .with(T_RIS, 2)
        .with(T_RESET, 2)
        .resizes(10)
        .limits(gen::LIMITS_FINITE)
        .length((4, 30), (2, 12))
        .size(20, 6);
    let n = ctx.scale(80_000, 3_000_000);
    for u in ctx.units(n) {
        let mut r = Rng::derive(ctx.seed, &[0xC13, 1, u as u64]);
        let h = gen::history(&mut r, &prof);
        if u < 2 {
            rep.sample(format!("G1: {}", h.brief()));
        }
        c13_history(&h, mix(ctx.seed, u as u64), rep);
    }
    // huge single calls and narrowing resizes (row multiplication)
    let n2 = ctx.scale(4000, 100_000);
    for u in ctx.units(n2) {
        let mut r = Rng::derive(ctx.seed, &[0xC13, 2, u as u64]);
        let cols = r.range(2, 40);
        let rows = r.range(1, 8);
        let limit = *r.pick(&[0usize, 1, 2, 9, 10, 11, 25, 100, 1000]);
        let mut h = History::new(cols, rows, Some(limit));
        let nlines = r.range(10, 3000);
        let mut s = String::new();
        for i in 0..nlines {
            let len = r.range(0, cols * 3);
            for j in 0..len {
                s.push((b'a' + ((i + j) % 26) as u8) as char);
            }
            s.push_str("\r\n");
        }
        h.calls.push(Call::FeedStr(s));
        for _ in 0..r.range(1, 4) {
            let c = r.range(1, 40);
            let rw = r.range(1, 8);
            h.calls.push(Call::Resize(c, rw));
            if r.chance(1, 2) {
                h.calls.push(Call::FeedStr("\x1b[?1049h".to_string() + &"x\r\n".repeat(r.range(1, 40))));
                h.calls.push(Call::Resize(r.range(1, 40), r.range(1, 8)));
                h.calls.push(Call::FeedStr("\x1b[?1049l".into()));
            }
            if r.chance(1, 4) {
                h.calls.push(Call::FeedStr("\x1bc".into()));
                h.calls.push(Call::FeedStr("after reset\r\n".repeat(r.range(0, 2 * limit + 40))));
            }
            h.calls.push(Call::FeedStr("tail\r\n".repeat(r.range(0, 30))));
        }
        if u < 1 {
            rep.sample(format!("bulk: {}", h.brief()));
        }
        c13_history(&h, mix(ctx.seed, u as u64), rep);
    }
    c13_large_limits(ctx, rep);
    // thorough: a few sessions that really fill a limit in the millions (1x1 screen, line feeds in
    // calls of 2^18) and check the bound after every call
    if ctx.thorough {
        for u in ctx.units(32) {
            let mut r = Rng::derive(ctx.seed, &[0xC13, 8, u as u64]);
            let l = r.range(1_000_000, 4_000_000) / 10 * 10 + r.below(10);
            let mut h = History::new(1, 1, Some(l));
            let mut left = l + l / 10 + 10 + (1 << 18);
            while left > 0 {
                let n = left.min(1 << 18);
                h.calls.push(Call::FeedStr("\n".repeat(n)));
                left -= n;
            }
            c13_history(&h, mix(ctx.seed, u as u64), rep);
            rep.count("sessions_filling_a_limit_in_the_millions", 1);
        }
    }
}

// ------------------------------------------------------------------------------------------ C15

fn view_of(vt: &Vt) -> Vec<MLine> {
    vt.view().iter().map(MLine::of).collect()
}

/// rows whose cells differ between the two snapshots (rows present in both)
fn changed_rows(a: &[MLine], b: &[MLine]) -> Vec<usize> {
    (0..a.len().min(b.len())).filter(|i| a[*i].cells != b[*i].cells).collect()
}

fn function_kinds(s: &str, pm: &mut PModel) -> Vec<&'static str> {
    s.chars().filter_map(|ch| pm.feed_act(ch).0.map(|f| f.kind())).collect()
}

pub fn c15_history(h: &History, rep: &mut Report) {
    rep.evaluations += 1;
    let hh = h.clone();
    let res = exec_history(h, rep, "C15", |rep| {
        let mut vt = hh.build();
        let mut pm = PModel::new();
        for (i, call) in hh.calls.iter().enumerate() {
            let before = view_of(&vt);
            let alt_before = vt.verif_state().alternate_active;
            // pending reports from earlier feed() calls are legitimately included in this call's
            // set, so soundness is all that is checked
            let out = apply(&mut vt, call, Handling::Consume);
            let kinds = match call {
                Call::FeedStr(s) | Call::Feed(s) => function_kinds(s, &mut pm),
                Call::Resize(..) => vec!["Resize"],
            };
            let Some(reported) = out.lines else { continue };
            rep.count("calls", 1);
            let after = view_of(&vt);
            let changed = changed_rows(&before, &after);
            if let Some(miss) = changed.iter().find(|r| !reported.contains(r)) {
                return Some((
                    i + 1,
                    format!(
                        "call {} ({:?}) changed row {} ({} -> {}) but reported only {:?}",
                        i, call, miss, before[*miss].show(), after[*miss].show(), reported
                    ),
                ));
            }
            if !changed.is_empty() {
                rep.count("calls_with_changed_rows", 1);
                if kinds.len() == 1 {
                    rep.count_s(format!("changed_by[{}]", kinds[0]), 1);
                }
                let pattern = match (changed.len(), changed.len() == after.len()) {
                    (1, false) => 1u64,
                    (_, true) => 3,
                    _ => 2,
                };
                let k0 = kinds.first().map(|k| k.bytes().fold(0u64, |a, b| a * 131 + b as u64)).unwrap_or(0);
                let (c, r) = vt.size();
                rep.key(mix(mix(k0, pattern * 8 + (alt_before as u64) * 4 + (kinds.len().min(3) as u64)), (c.min(3) * 4 + r.min(3)) as u64));
            }
        }
        None
    });
    if let Some((n, msg)) = res {
        let mut cut = h.clone();
        cut.calls.truncate(n);
        rep.violation("C15", msg, &cut);
    }
}

/// split every feed call into one call per token-ish piece: one complete sequence or one run of
/// text per call, so that every function is isolated
fn split_per_function(h: &History) -> History {
    let mut out = History::new(h.cols, h.rows, h.limit);
    for c in &h.calls {
        match c {
            Call::FeedStr(s) | Call::Feed(s) => {
                let mut pm = PModel::new();
                let mut cur = String::new();
                for ch in s.chars() {
                    cur.push(ch);
                    let (f, _) = pm.feed_act(ch);
                    if f.is_some() && pm.st == crate::model::parser::St::Ground {
                        out.calls.push(Call::FeedStr(std::mem::take(&mut cur)));
                    }
                }
                if !cur.is_empty() {
                    out.calls.push(Call::FeedStr(cur));
                }
            }
            r => out.calls.push(r.clone()),
        }
    }
    out
}

pub fn work_c15(ctx: &Ctx, rep: &mut Report) {
    let prof = Profile::general().with(T_RIS, 1).with(T_RESET, 3).boost(&[T_ALT], 2).resizes(8).length((2, 8), (1, 5));
    let n = ctx.scale(150_000, 5_000_000);
    for u in ctx.units(n) {
        let mut r = Rng::derive(ctx.seed, &[0xC15, 1, u as u64]);
        let h = gen::history(&mut r, &prof);
        // half of the histories: one function per call
        let h = if u % 2 == 0 { split_per_function(&h) } else { h };
        if u < 2 {
            rep.sample(format!("G1: {}", h.brief()));
        }
        c15_history(&h, rep);
    }
    // G2: all sequences of 3 atoms (each atom its own call) incl. resizes
    let mut alpha: Vec<&'static str> = g2_alphabet("general");
    alpha.extend_from_slice(C02_RESIZE_ATOMS);
    alpha.push("\x1bc");
    let k = 3;
    let sizes: &[(usize, usize)] = if ctx.thorough { G2_SIZES } else { &[(1, 1), (2, 2), (3, 2), (4, 3), (5, 4)] };
    let per = alpha.len().pow(k as u32);
    for u in ctx.units(per * sizes.len()) {
        let size = sizes[u / per];
        let mut idx = u % per;
        let mut h = History::new(size.0, size.1, None);
        for _ in 0..k {
            h.calls.push(atom_call(alpha[idx % alpha.len()]));
            idx /= alpha.len();
        }
        if u == per / 2 {
            rep.sample(format!("G2 (all {} sequences of {} calls): {}", per, k, h.brief()));
        }
        c15_history(&h, rep);
    }
}
