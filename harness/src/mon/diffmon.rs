//! Checks decided by the differential monitor (model vs real, DESIGN §3.4): C04-C08, C17, C18 and
//! the differential parts of C03, C16, C19, C20.

use crate::diff::{self, End};
use crate::gen::{self, Profile, *};
use crate::hist::History;
use crate::model::parser::F;
use crate::report::Report;
use crate::rng::Rng;
use crate::run::{guarded, Ctx, Guarded};
use crate::workloads::*;

pub fn prop_hash(p: &str) -> u64 {
    p.bytes().fold(7u64, |a, b| a.wrapping_mul(257).wrapping_add(b as u64))
}

/// Run one history through the differential monitor and file the outcome under `prop`.
pub fn run_one(prop: &str, h: &History, rep: &mut Report) {
    rep.evaluations += 1;
    let focus = |f: &F| diff::props_of(f, true).contains(&prop) || diff::props_of(f, false).contains(&prop);
    let r = guarded(|| diff::run_history(h, rep, &focus));
    match r {
        Guarded::Done(End::Ok) => {}
        Guarded::Done(End::Diverged(d)) => {
            if d.props.iter().any(|p| *p == prop) {
                rep.violation(prop, diff::describe(h, &d), h);
            } else if d.props.is_empty() {
                rep.count("unattributed_divergence", 1);
            } else {
                for p in &d.props {
                    rep.count_s(format!("foreign_divergence[{}]", p), 1);
                }
            }
        }
        Guarded::Done(End::Abandoned(_)) => rep.count("histories_abandoned_at_convention_or_unmodellable_point", 1),
        Guarded::AvtPanic(msg, loc) => {
            if prop == "C01" {
                rep.violation("C01", format!("panic at {}: {}", loc, msg), h);
            } else {
                rep.count_s("foreign_divergence[C01]".into(), 1);
            }
        }
        Guarded::HarnessPanic(msg, loc) => rep.inconclusive(format!("harness panic at {}: {} on {}", loc, msg, h.brief())),
    }
}

pub fn profile_for(prop: &str) -> Profile {
    let g = Profile::general();
    match prop {
        "C04" => g.boost(&[T_TEXT, T_TEXTX, T_CHARSET], 2).with(T_MODE, 10).with(T_STBM, 8).with(T_EDIT, 10),
        "C05" => g.boost(&[T_CUR], 4).with(T_STBM, 10).with(T_MODE, 10).with(T_TABS, 8).with(T_LINES, 10),
        "C06" => g.boost(&[T_LINES], 5).with(T_STBM, 12).with(T_C0, 20).with(T_SGR, 8).with(T_ALT, 5).length((2, 10), (2, 9)),
        "C07" => g.boost(&[T_EDIT], 5).with(T_SGR, 10).with(T_TEXT, 30),
        "C08" => g.boost(&[T_SGR], 8).with(T_EDIT, 12).with(T_LINES, 6),
        "C16" => g.boost(&[T_ALT], 6).with(T_SAVE, 8).resizes(10),
        "C17" => g.boost(&[T_SAVE], 8).with(T_ALT, 8).with(T_MODE, 10).with(T_SGR, 10).with(T_RESET, 4).resizes(10),
        "C18" => g.boost(&[T_TABS], 10).with(T_CUR, 10).resizes(15).size(40, 4),
        "C19" => g.with(T_RIS, 4).with(T_ALT, 6).resizes(8),
        "C20" => g.boost(&[T_STR, T_UNIMPL], 10).with(T_MALFORMED, 6),
        "C03" => g.boost(&[T_STR, T_UNIMPL, T_MALFORMED], 6).with(T_SOUP, 20).with(T_SGR, 12),
        _ => g,
    }
}

/// The three workload families for one property; `g1` histories are random, G2/G3 enumerated.
pub fn work(ctx: &Ctx, rep: &mut Report, g1: (usize, usize), g2_k: (usize, usize), g3: bool) {
    let prop = ctx.prop.as_str();
    let ph = prop_hash(prop);
    // G1 grammar streams
    let n = ctx.scale(g1.0, g1.1);
    let prof = profile_for(prop);
    for i in ctx.units(n) {
        let mut r = Rng::derive(ctx.seed, &[ph, 1, i as u64]);
        let h = gen::history(&mut r, &prof);
        if i < 3 {
            rep.sample(format!("G1: {}", h.brief()));
        }
        run_one(prop, &h, rep);
    }
    rep.count("g1_histories", ctx.units(n).count() as u64);
    // G2 bounded-exhaustive sequences on tiny screens
    let k = ctx.scale(g2_k.0, g2_k.1);
    if k > 0 {
        let alpha = g2_alphabet(prop);
        let per = g2_count(&alpha, k);
        let total = per * G2_SIZES.len();
        for u in ctx.units(total) {
            let size = G2_SIZES[u / per];
            let h = g2_history(size, &alpha, u % per, k);
            if u == per / 3 {
                rep.sample(format!("G2 (all {} sequences of {} atoms on {} sizes): {}", per, k, G2_SIZES.len(), h.brief()));
            }
            run_one(prop, &h, rep);
        }
        rep.count("g2_histories", ctx.units(total).count() as u64);
        rep.count_s(format!("g2_alphabet_{}_depth_{}_complete", alpha.len(), k), 1);
        if ctx.thorough {
            // one level deeper over each half of the alphabet (even / odd atoms)
            for half in 0..2 {
                let sub: Vec<&'static str> = alpha.iter().copied().skip(half).step_by(2).collect();
                let per = g2_count(&sub, k + 1);
                let total = per * G2_SIZES.len();
                for u in ctx.units(total) {
                    let h = g2_history(G2_SIZES[u / per], &sub, u % per, k + 1);
                    run_one(prop, &h, rep);
                }
                rep.count("g2_histories", ctx.units(total).count() as u64);
                rep.count_s(format!("g2_half_alphabet_{}_depth_{}_complete", sub.len(), k + 1), 1);
            }
        }
    }
    // G3 state x command cross product
    if g3 {
        let sizes = if ctx.thorough { G3_SIZES_THOROUGH } else { G3_SIZES_QUICK };
        let mode_bits: &[u8] = match prop {
            "C04" => &[1, 2, 5, 0],
            "C05" => &[0, 3, 1],
            "C06" => &[0, 3, 4],
            "C07" => &[4, 1, 3],
            _ => &[0],
        };
        let mut done = 0u64;
        for (si, (c, r)) in sizes.iter().enumerate() {
            let cmds = g3_commands(prop, *c, *r);
            if cmds.is_empty() {
                continue;
            }
            let sp = G3Space::new(*c, *r, mode_bits, cmds);
            let total = sp.count();
            // quick: a deterministic 1-in-stride sample of the product; thorough: all of it
            let stride = if ctx.thorough { 1 } else { (total / 60_000).max(1) };
            let mut u = ctx.shard * stride + (ctx.seed as usize % stride);
            while u < total {
                let h = sp.history(u);
                if si == 2 && done == 5 {
                    rep.sample(format!("G3 (content x margins x modes x position x command, {} of {}): {}", total / stride, total, h.brief()));
                }
                run_one(prop, &h, rep);
                done += 1;
                u += stride * ctx.nshards;
            }
        }
        rep.count("g3_histories", done);
    }
    // G3s: the property's commands after scenarios that cross screen switches and resizes
    {
        let sizes: &[(usize, usize)] = if ctx.thorough { &[(4, 4), (6, 5), (3, 3), (9, 2), (2, 6), (1, 3)] } else { &[(4, 4), (6, 5), (3, 3)] };
        let mut done = 0u64;
        for (c, r) in sizes {
            let mut cmds = g3_commands(prop, *c, *r);
            if cmds.is_empty() {
                cmds = vec!["x".to_string()];
            }
            let sc = Scenario { cols: *c, rows: *r, commands: cmds, mid: scenario_mid(prop) };
            let total = sc.count();
            let stride = if ctx.thorough { 1 } else { (total / 120_000).max(1) };
            let mut u = ctx.shard * stride + (ctx.seed as usize % stride);
            while u < total {
                let h = sc.history(u);
                if done == 7 && *c == 4 {
                    rep.sample(format!("G3s (text x enter x resize x margins x origin x leave x resize x command, {} of {}): {}", total / stride, total, h.brief()));
                }
                run_one(prop, &h, rep);
                done += 1;
                u += stride * ctx.nshards;
            }
        }
        rep.count("g3s_scenario_histories", done);
    }
    // GX: one dimension at or beyond 2^16
    {
        let per = ctx.scale(12, 120);
        let mut done = 0u64;
        let sizes: Vec<(usize, usize)> = GX_TALL.iter().chain(GX_WIDE.iter()).copied().collect();
        for u in ctx.units(sizes.len() * per) {
            let mut r = Rng::derive(ctx.seed, &[ph, 9, u as u64]);
            let h = gx_history(prop, &mut r, sizes[u % sizes.len()]);
            if u == 3 {
                rep.sample(format!("GX (one dimension >= 2^16): {}", h.brief()));
            }
            run_one(prop, &h, rep);
            done += 1;
        }
        rep.count("gx_extreme_dimension_histories", done);
    }
    // G3w: command, perturbation, same command again (stale caches / fast paths)
    {
        let sizes: &[(usize, usize)] = if ctx.thorough { &[(4, 3), (1, 1), (6, 5), (2, 1), (1, 4), (9, 2), (3, 2)] } else { &[(4, 3), (1, 1), (6, 5)] };
        let mut done = 0u64;
        for (c, r) in sizes {
            let hs = sandwich_histories(prop, *c, *r);
            for u in ctx.units(hs.len()) {
                if done == 11 && *c == 4 {
                    rep.sample(format!("G3w (command x 28 perturbations x 3 pens, then the same command again; {} histories on {}x{}): {}", hs.len(), c, r, hs[u].brief()));
                }
                run_one(prop, &hs[u], rep);
                done += 1;
            }
        }
        rep.count("g3w_sandwich_histories", done);
    }
}
