//! C03: the parser is Williams' table, dispatch is exact and memoryless.
//!  1. exhaustive table: every state (entered through several backgrounds) x every Unicode scalar
//!  2. dispatch product: finals x prefixes x parameter shapes, 7- and 8-bit
//!  3. memorylessness: ordered pairs / sampled triples of sequences vs a fresh parser
//!  4. streams: G1 / G6 inputs compared function by function (differential monitor)

use crate::cmp::compare_pstate;
use crate::hist::{esc, Call, History};
use crate::model::parser::{conv, Act, PModel, St, F};
use crate::report::Report;
use crate::rng::{mix, Rng};
use crate::run::{guarded, Ctx, Guarded};
use avt::parser::Parser;

/// (state the background leaves the parser in, input that gets it there)
pub fn backgrounds(thorough: bool) -> Vec<(St, String)> {
    let many = format!("\x1b[38:2:1:2:3:4:5:6{}9", ";".repeat(40));
    let full = format!("\x1b[{}", "65535:1:2:3:4:5;".repeat(31));
    let mut v: Vec<(St, String)> = vec![
        (St::Ground, "".into()),
        (St::Ground, "\x1b[1;2;3\x18".into()),
        (St::Ground, format!("{}\x1a", many)),
        (St::Escape, "\x1b".into()),
        (St::Escape, "\x1b[5;6\x1b".into()),
        (St::Escape, format!("{}\x1b", many)),
        (St::EscInt, "\x1b(".into()),
        (St::EscInt, "\x1b#".into()),
        (St::EscInt, "\x1b[1;2 \x1b$".into()),
        (St::CsiEntry, "\x1b[".into()),
        (St::CsiEntry, "\u{9b}".into()),
        (St::CsiEntry, format!("{}\u{9b}", many)),
        (St::CsiParam, "\x1b[1".into()),
        (St::CsiParam, "\x1b[?".into()),
        (St::CsiParam, "\x1b[1;2:3;".into()),
        (St::CsiParam, "\x1b[38:2:1:2:3".into()),
        (St::CsiInt, "\x1b[ ".into()),
        (St::CsiInt, "\x1b[1;2$".into()),
        (St::CsiInt, "\x1b[!".into()),
        (St::CsiIgnore, "\x1b[:".into()),
        (St::CsiIgnore, "\x1b[1<".into()),
        (St::CsiIgnore, "\x1b[1 1".into()),
        (St::DcsEntry, "\x1bP".into()),
        (St::DcsEntry, "\u{90}".into()),
        (St::DcsEntry, format!("{}\u{90}", many)),
        (St::DcsParam, "\x1bP1".into()),
        (St::DcsParam, "\x1bP?1;2".into()),
        (St::DcsInt, "\x1bP$".into()),
        (St::DcsInt, "\x1bP1;2 ".into()),
        (St::DcsPass, "\x1bPq".into()),
        (St::DcsPass, "\x1bP1;2$q#0".into()),
        (St::DcsIgnore, "\x1bP:".into()),
        (St::DcsIgnore, "\x1bP1:".into()),
        (St::Osc, "\x1b]".into()),
        (St::Osc, "\u{9d}0;t".into()),
        (St::Sos, "\x1bX".into()),
        (St::Sos, "\u{9e}abc".into()),
        (St::Sos, "\x1b_".into()),
    ];
    if thorough {
        let more: Vec<(St, String)> = vec![
            (St::Ground, "abc".into()),
            (St::Ground, "\x1b]x\x07".into()),
            (St::Ground, "\x1bP1$q\u{9c}".into()),
            (St::Ground, format!("{}m", full)),
            (St::Ground, "\x1b[?1;2 q".into()),
            (St::Escape, "\x1bP1;2$qx\x1b".into()),
            (St::Escape, "\x1b]t\x1b".into()),
            (St::Escape, "\x1b(\x1b".into()),
            (St::Escape, format!("{}\x1b", full)),
            (St::EscInt, "\x1b \x1b/".into()),
            (St::EscInt, "\x1b%".into()),
            (St::EscInt, format!("{}\x1b)", full)),
            (St::CsiEntry, "\x1b[1;2;3m\x1b[".into()),
            (St::CsiEntry, "\x1b]t\u{9b}".into()),
            (St::CsiEntry, "\x1b[?25 \u{9b}".into()),
            (St::CsiEntry, format!("{}\x1b[", full)),
            (St::CsiParam, "\x1b[;".into()),
            (St::CsiParam, "\x1b[>1;".into()),
            (St::CsiParam, "\x1b[65535".into()),
            (St::CsiParam, format!("\x1b[{}", "1;".repeat(31))),
            (St::CsiParam, "\x1b[1:2:3:4:5:".into()),
            (St::CsiParam, format!("{}\x1b[4", many)),
            (St::CsiInt, "\x1b[?1$".into()),
            (St::CsiInt, "\x1b[ !".into()),
            (St::CsiInt, format!("{}\x1b[/", full)),
            (St::CsiIgnore, "\x1b[?1?".into()),
            (St::CsiIgnore, format!("{}:", "\x1b[".to_string())),
            (St::CsiIgnore, "\x1b[1;2 :".into()),
            (St::DcsEntry, "\x1b[1;2;3\x1bP".into()),
            (St::DcsEntry, format!("{}\x1bP", full)),
            (St::DcsParam, "\x1bP;".into()),
            (St::DcsParam, "\x1bP>".into()),
            (St::DcsParam, format!("\x1bP{}", "9;".repeat(35))),
            (St::DcsParam, format!("{}\u{90}7", full)),
            (St::DcsInt, "\x1bP?1!".into()),
            (St::DcsInt, "\x1bP  ".into()),
            (St::DcsPass, "\u{90}|".into()),
            (St::DcsPass, "\x1bP+qabc\r\n".into()),
            (St::DcsPass, format!("{}\u{90}1$r", full)),
            (St::DcsIgnore, "\x1bP1;2<".into()),
            (St::DcsIgnore, "\x1bP$1".into()),
            (St::DcsIgnore, "\x1bP:abc".into()),
            (St::Osc, "\x1b]8;;http://x\r\n".into()),
            (St::Osc, format!("{}\x1b]", full)),
            (St::Osc, "\x1b[5;6\u{9d}".into()),
            (St::Sos, "\x1b^".into()),
            (St::Sos, "\u{98}".into()),
            (St::Sos, "\u{9f}\x07\r".into()),
            (St::Sos, format!("{}\x1bX", full)),
        ];
        v.extend(more);
    }
    v
}

const FLUSH: [&str; 9] = ["m", ";;;m", "1:::::m", "5;7H", "$p", "\x1b\\", "h", ";4;20l", "\u{9c}X"];

pub fn byte_class(c: u32) -> u64 {
    match c {
        0x07 => 35,
        0x08..=0x0f => 36,
        0x00..=0x17 => 0,
        0x18 => 1,
        0x19 => 2,
        0x1a => 3,
        0x1b => 4,
        0x1c..=0x1f => 5,
        0x20..=0x2f => 6,
        0x30..=0x39 => 7,
        0x3a => 8,
        0x3b => 9,
        0x3c..=0x3f => 10,
        0x40..=0x4f => 11,
        0x50 => 12,
        0x51..=0x57 => 13,
        0x58 => 14,
        0x59..=0x5a => 15,
        0x5b => 16,
        0x5c => 17,
        0x5d => 18,
        0x5e..=0x5f => 19,
        0x60..=0x7e => 20,
        0x7f => 21,
        0x80..=0x8f => 22,
        0x90 => 23,
        0x91..=0x97 => 24,
        0x98 => 25,
        0x99..=0x9a => 26,
        0x9b => 27,
        0x9c => 28,
        0x9d => 29,
        0x9e..=0x9f => 30,
        0xa0..=0xff => 31,
        0x100..=0xd7ff => 32,
        0xe000..=0xffff => 33,
        _ => 34,
    }
}

fn hist_of(input: &str) -> History {
    let mut h = History::new(4, 2, None);
    h.calls.push(Call::Feed(input.to_string()));
    h
}

/// feed `s` to both parsers comparing everything; Err(description) on the first difference
fn feed_both(rp: &mut Parser, pm: &mut PModel, s: &str) -> Result<(), String> {
    for ch in s.chars() {
        let st0 = pm.st;
        let (mf, act) = pm.feed_act(ch);
        let rf = rp.feed(ch).as_ref().map(conv);
        if St::of(rp.state) != pm.st {
            return Err(format!("next state after {:?} in {:?}: real {:?}, table {:?}", ch, st0, rp.state, pm.st));
        }
        let dispatch = matches!(act, Act::EscDispatch | Act::CsiDispatch);
        if dispatch && pm.unspecified {
            continue; // U5: numbers not promised
        }
        if pm.sgr_malformed {
            if !matches!((&rf, &mf), (Some(F::Sgr(_)), Some(F::Sgr(_)))) {
                return Err(format!("malformed SGR not dispatched as SGR after {:?}: real {:?}", ch, rf));
            }
            continue;
        }
        if rf != mf {
            return Err(format!("function for {:?} in {:?}: real {:?}, table {:?}", ch, st0, rf, mf));
        }
        if let Some(m) = compare_pstate(&rp.verif_state(), pm) {
            return Err(format!("after {:?} in {:?}: {}", ch, st0, m.msg));
        }
    }
    Ok(())
}

fn table(ctx: &Ctx, rep: &mut Report) {
    let bgs = backgrounds(ctx.thorough);
    const CHUNKS: usize = 64;
    const SPAN: u32 = 0x110000 / CHUNKS as u32;
    let total = bgs.len() * CHUNKS;
    let mut pairs = 0u64;
    for u in ctx.units(total) {
        let (bi, ci) = (u / CHUNKS, u % CHUNKS);
        let (st, bg) = &bgs[bi];
        let mut fails = 0;
        for cp in (ci as u32 * SPAN)..((ci as u32 + 1) * SPAN) {
            let Some(c) = char::from_u32(cp) else { continue };
            let mut rp = Parser::new();
            let mut pm = PModel::new();
            for ch in bg.chars() {
                rp.feed(ch);
                pm.feed_act(ch);
            }
            if pm.st != *st || St::of(rp.state) != *st {
                rep.violation("C03", format!("background {:?} should lead to {:?}: real {:?}, table {:?}", esc(bg), st, rp.state, pm.st), &hist_of(bg));
                break;
            }
            pairs += 1;
            let flush = FLUSH[(cp as usize + bi) % FLUSH.len()];
            let mut input = String::new();
            input.push(c);
            input.push_str(flush);
            rep.key(mix(mix(*st as u64, byte_class(cp)), bi as u64));
            if let Err(e) = feed_both(&mut rp, &mut pm, &input) {
                fails += 1;
                if fails <= 2 {
                    let whole = format!("{}{}", bg, input);
                    rep.violation("C03", format!("state {:?} (background {:?}) + U+{:04X} + flush {:?}: {}", st, esc(bg), cp, esc(flush), e), &hist_of(&whole));
                } else {
                    rep.count_s("violations[C03]".into(), 1);
                }
            }
        }
    }
    rep.evaluations += pairs;
    rep.count("table_state_scalar_pairs", pairs);
    if ctx.shard == 0 {
        rep.count("table_backgrounds", bgs.len() as u64);
        rep.sample(format!("table: state CsiParam entered by {:?}, then every scalar U+0000..U+10FFFF, then a flush suffix such as {:?}", esc(&bgs[14].1), FLUSH[2]));
    }
}

fn dispatch_product(ctx: &Ctx, rep: &mut Report) {
    let mut prefixes: Vec<String> = vec!["".into(), "?".into(), "!".into(), "<".into(), "=".into(), ">".into()];
    for i in 0x20u32..=0x2f {
        prefixes.push(char::from_u32(i).unwrap().to_string());
    }
    let p32 = vec!["7"; 32].join(";");
    let shapes: Vec<String> =
        vec!["".into(), "0".into(), "1".into(), "65535".into(), ";".into(), ";5".into(), "5;".into(), p32, "1:2".into(), "38:5:9;4".into(), "2;3;8".into(), "00012".into(), "65534".into(), "65530;65529".into(), "6553;6554".into(), "32768;9".into(), "0065535".into()];
    let mut seqs: Vec<String> = Vec::new();
    for intro in ["\x1b[", "\u{9b}"] {
        for pre in &prefixes {
            for sh in &shapes {
                for f in 0x40u32..=0x7e {
                    let fch = char::from_u32(f).unwrap();
                    // markers come before the parameters, intermediates after
                    let s = if pre.chars().next().map(|c| ('<'..='?').contains(&c)).unwrap_or(false) {
                        format!("{}{}{}{}", intro, pre, sh, fch)
                    } else {
                        format!("{}{}{}{}", intro, sh, pre, fch)
                    };
                    seqs.push(s);
                }
            }
        }
    }
    for inter in std::iter::once(String::new()).chain((0x20u32..=0x2f).map(|i| char::from_u32(i).unwrap().to_string())) {
        for f in 0x30u32..=0x7e {
            seqs.push(format!("\x1b{}{}", inter, char::from_u32(f).unwrap()));
        }
    }
    // the 8-bit twins of ESC Fe
    for c in 0x80u32..=0x9f {
        seqs.push(char::from_u32(c).unwrap().to_string());
    }
    let n = seqs.len();
    for u in ctx.units(n) {
        let s = &seqs[u];
        let mut rp = Parser::new();
        let mut pm = PModel::new();
        rep.evaluations += 1;
        rep.key(mix(0xD15, u as u64 / 3));
        if let Err(e) = feed_both(&mut rp, &mut pm, &format!("{}x", s)) {
            rep.violation("C03", format!("dispatch of {:?}: {}", esc(s), e), &hist_of(s));
        }
    }
    // ESC Fe == C1: compare the real parser with itself
    for u in ctx.units(0x20) {
        let c1 = char::from_u32(0x80 + u as u32).unwrap();
        let fe = char::from_u32(0x40 + u as u32).unwrap();
        for tail in ["1;2m", "q\u{9c}", "x", "\x07", "5H"] {
            let run = |first: &str| {
                let mut rp = Parser::new();
                let mut out = Vec::new();
                for ch in first.chars().chain(tail.chars()) {
                    out.push(rp.feed(ch).as_ref().map(conv));
                }
                (out.into_iter().flatten().collect::<Vec<F>>(), St::of(rp.state))
            };
            let a = run(&c1.to_string());
            let b = run(&format!("\x1b{}", fe));
            rep.evaluations += 1;
            if a != b {
                rep.violation("C03", format!("ESC {:?} differs from its C1 twin U+{:04X} before {:?}: {:?} vs {:?}", fe, c1 as u32, tail, b, a), &hist_of(&format!("\x1b{}{}", fe, tail)));
            }
        }
    }
    if ctx.shard == 0 {
        rep.count("dispatch_sequences", n as u64);
        rep.sample(format!("dispatch product: {:?}", esc(&seqs[n / 2])));
    }
}

/// sequences that put the parser in a defined state whatever came before (they start with an
/// "anywhere" character), complete or aborted
fn pool() -> (Vec<String>, Vec<String>) {
    let p32 = vec!["9"; 32].join(";");
    let p40 = vec!["8"; 40].join(";");
    let complete: Vec<String> = [
        "\x1b[m", "\x1b[1m", "\x1b[;m", "\x1b[1;2;3m", "\x1b[38;5;1m", "\x1b[38:2:1:2:3m", "\x1b[48:2::1:2:3m", "\x1b[H", "\x1b[5H", "\x1b[5;6H", "\x1b[;6H",
        "\x1b[A", "\x1b[3A", "\x1b[r", "\x1b[2;3r", "\x1b[?6h", "\x1b[?6;7;25l", "\x1b[4h", "\x1b[4;20l", "\x1b[!p", "\x1b[J", "\x1b[2J", "\x1b[K", "\x1b[1K",
        "\x1b[2 q", "\x1b[?1$p", "\x1b[>c", "\x1b[8;3;4t", "\x1b[3g", "\x1b[5W", "\u{9b}m", "\u{9b}2;2H", "\u{9b}?1049h", "\x1b7", "\x1b8", "\x1bM", "\x1bD",
        "\x1bE", "\x1bH", "\x1bc", "\x1b#8", "\x1b(0", "\x1b)B", "\x1b%G", "\x1b]0;t\x07", "\x1b]0;t\x1b\\", "\u{9d}x\u{9c}", "\x1bP1;2$qm\x1b\\", "\u{90}q\u{9c}",
        "\x1bXa\x1b\\", "\x1b^b\u{9c}", "\x1b_c\x1b\\", "\u{84}", "\u{85}", "\u{8d}", "\u{88}", "\x18", "\x1a", "\x1b[65535;65535H", "\x1b[1:2:3:4:5:6m", "\x1b[b",
        "\x1b[2b", "\x1b[L", "\x1b[2M", "\x1b[@", "\x1b[3P", "\x1b[4X", "\x1b[S", "\x1b[2T", "\x1b[d", "\x1b[2e", "\x1b[G", "\x1b[3`", "\x1b[I", "\x1b[2Z", "\x1b[s", "\x1b[u",
        // positional parameters left out at the end: each must read as its default whatever an earlier
        // sequence left in the slots behind the last one written
        "\x1b[8t", "\x1b[8;24t", "\x1b[8;;5t", "\x1b[5r", "\x1b[;3r", "\x1b[7;H", "\x1b[5f", "\x1bP1q\x1b\\", "\x1b[38;5m", "\x1b[38;2;1;2m",
    ]
    .iter()
    .map(|s| s.to_string())
    .chain([format!("\x1b[{}m", p32), format!("\x1b[{}H", p32)])
    .collect();
    let mut any: Vec<String> = complete.clone();
    any.extend(
        [
            "\x1b[1;2;3", "\x1b[?25", "\x1b[38:2:1:2:3", "\x1b[1;2 ", "\x1b[:", "\x1b[1<", "\x1b", "\x1b(", "\x1b#", "\x1b[", "\u{9b}", "\x1bP", "\x1bP1;2", "\x1bP1$",
            "\x1bPq123", "\x1bP:", "\x1b]", "\x1b]0;title", "\x1bX", "\x1b_apc", "\x1b[1;2;3\x18", "\x1b[1;2;3\x1a", "\x1b[9;8;7\x1b", "\x1b[5;4\u{9b}", "\x1b[5;4\u{90}",
            "\x1b[7;7;7\u{9d}", "\x1b[6;6\u{98}", "\x1b[3;3;3\u{9c}", "abc", "\r\n", "\x1b[65535;65535;65535", "\x1b[1:2:3:4:5:6;1:2:3:4:5:6",
        ]
        .iter()
        .map(|s| s.to_string()),
    );
    any.push(format!("\x1b[{}", p40));
    any.push(format!("\x1b[{};", p32));
    any.push(format!("\x1bP{}", p40));
    (complete, any)
}

fn run_real(prefix: &[&str], last: &str) -> (Vec<F>, St) {
    let mut rp = Parser::new();
    for s in prefix {
        for ch in s.chars() {
            rp.feed(ch);
        }
    }
    let mut out = Vec::new();
    for ch in last.chars() {
        if let Some(f) = rp.feed(ch) {
            out.push(conv(&f));
        }
    }
    (out, St::of(rp.state))
}

fn memoryless(ctx: &Ctx, rep: &mut Report) {
    let (complete, any) = pool();
    let fresh: Vec<(Vec<F>, St)> = complete.iter().map(|s| run_real(&[], s)).collect();
    // all ordered pairs (first: anything, last: complete)
    let total = any.len() * complete.len();
    for u in ctx.units(total) {
        let (a, b) = (&any[u / complete.len()], u % complete.len());
        // the last sequence must start in a defined way: all pool entries start with an
        // "anywhere" character, except when the first leaves a string state and ... they all do.
        let got = run_real(&[a], &complete[b]);
        rep.evaluations += 1;
        rep.key(mix(0xA11, u as u64));
        if got != fresh[b] {
            let whole = format!("{}{}", a, complete[b]);
            rep.violation(
                "C03",
                format!("{:?} after {:?} yields {:?}, on a fresh parser {:?} (stale data leaked)", esc(&complete[b]), esc(a), got, fresh[b]),
                &hist_of(&whole),
            );
        }
    }
    // sampled triples
    let n3 = ctx.scale(40_000, 600_000);
    for u in ctx.units(n3) {
        let mut r = Rng::derive(ctx.seed, &[0xC03, 3, u as u64]);
        let a = r.pick(&any).clone();
        let b = r.pick(&any).clone();
        let ci = r.below(complete.len());
        let got = run_real(&[&a, &b], &complete[ci]);
        rep.evaluations += 1;
        if got != fresh[ci] {
            let whole = format!("{}{}{}", a, b, complete[ci]);
            rep.violation(
                "C03",
                format!("{:?} after {:?} {:?} yields {:?}, on a fresh parser {:?}", esc(&complete[ci]), esc(&a), esc(&b), got, fresh[ci]),
                &hist_of(&whole),
            );
        }
    }
    if ctx.shard == 0 {
        rep.count("memoryless_pairs", total as u64);
        rep.count("memoryless_triples", n3 as u64);
        rep.sample(format!("memoryless pair: {:?} then {:?} vs fresh", esc(&any[any.len() - 2]), esc(&complete[3])));
    }
}

pub fn work(ctx: &Ctx, rep: &mut Report) {
    match guarded(|| {
        table(ctx, rep);
        dispatch_product(ctx, rep);
        memoryless(ctx, rep);
    }) {
        Guarded::Done(()) => {}
        Guarded::AvtPanic(m, l) => rep.count_s(format!("foreign_divergence[C01] panic {} {}", l, m), 1),
        Guarded::HarnessPanic(m, l) => rep.inconclusive(format!("harness panic at {}: {}", l, m)),
    }
    // 4. streams through the differential monitor
    crate::mon::diffmon::work(ctx, rep, (60_000, 600_000), (0, 0), false);
    // long scalar-soup streams (G6)
    let n = ctx.scale(800, 20_000);
    for u in ctx.units(n) {
        let mut r = Rng::derive(ctx.seed, &[0xC03, 6, u as u64]);
        let len = r.range(200, 4000);
        let mut g = crate::gen::Gen::new(&mut r, 8, 3);
        let s = g.soup(len);
        let mut h = History::new(8, 3, Some(10));
        h.calls.push(Call::Feed(s));
        crate::mon::diffmon::run_one("C03", &h, rep);
    }
    rep.count("soup_streams", ctx.units(n).count() as u64);
}
