//! Logical lines: the cells of consecutive rows joined over soft-wrap marks, and the cursor's
//! place in them.  Used by the resize relation of C10 and C16.

use crate::model::term::{MCell, MLine};
use avt::Vt;

#[derive(Clone, Debug, PartialEq)]
pub struct Logical {
    pub lines: Vec<Vec<MCell>>,
    /// logical line index of the cursor and its cell offset in it (wrap-pending = last column)
    pub cur: (usize, usize),
}

pub fn logical_of(lines: &[MLine], cols: usize, abs_cursor_row: usize, cursor_col: usize, clamp_pending: bool) -> Logical {
    let mut out: Vec<Vec<MCell>> = vec![];
    let mut cur: Vec<MCell> = vec![];
    let mut curpos = (0, 0);
    let mut rows_in = 0;
    let mut open = false;
    for (i, l) in lines.iter().enumerate() {
        if i == abs_cursor_row {
            curpos = (out.len(), rows_in * cols + if clamp_pending { cursor_col.min(cols.saturating_sub(1)) } else { cursor_col });
        }
        cur.extend_from_slice(&l.cells);
        open = true;
        if l.wrapped {
            rows_in += 1;
        } else {
            out.push(std::mem::take(&mut cur));
            rows_in = 0;
            open = false;
        }
    }
    if open {
        out.push(cur);
    }
    Logical { lines: out, cur: curpos }
}

/// `clamp_pending`: count a wrap-pending cursor as sitting on the last column (what a saved
/// cursor records) instead of one past it (where the next character would go)
pub fn logical(vt: &Vt, clamp_pending: bool) -> Logical {
    let lines: Vec<MLine> = vt.lines().iter().map(MLine::of).collect();
    let (cols, rows) = vt.size();
    let c = vt.cursor();
    logical_of(&lines, cols, lines.len() - rows + c.row, c.col, clamp_pending)
}

pub fn trim(v: &[MCell]) -> &[MCell] {
    let mut n = v.len();
    while n > 0 && v[n - 1].is_blank_default() {
        n -= 1;
    }
    &v[..n]
}

pub fn txt(v: &[MCell]) -> String {
    v.iter().map(|c| c.ch).collect()
}

fn tail_relation(t0: &[&[MCell]], t1: &[&[MCell]]) -> Option<&'static str> {
    if t1.len() > t0.len() {
        return Some("logical lines were invented");
    }
    for (j, v) in t1.iter().enumerate() {
        if *v == t0[j] {
            continue;
        }
        if j == t1.len() - 1 && t0[j].len() >= v.len() && &t0[j][..v.len()] == *v {
            continue; // the last surviving line may be cut short
        }
        return Some("a logical line was altered (not merely cut short at the end)");
    }
    None
}

fn strip_empty<'a>(ls: &'a [Vec<MCell>]) -> Vec<&'a [MCell]> {
    let mut t: Vec<&[MCell]> = ls.iter().map(|v| trim(v)).collect();
    while t.last().map_or(false, |v| v.is_empty()) {
        t.pop();
    }
    t
}

/// C10: what a resize of the primary screen may do to the logical text and the cursor.
/// `same_width`: nothing is re-wrapped, so the cursor's offset in its line (wrap-pending = one past
/// the last column) must be exactly what it was - otherwise text that was before the cursor is no
/// longer before it.
pub fn resize_relation_w(b: &Logical, a: &Logical, same_width: bool) -> Option<&'static str> {
    if let Some(e) = resize_relation(b, a) {
        return Some(e);
    }
    if same_width && a.cur != b.cur {
        return Some("a height-only resize moved the cursor within its logical line (e.g. a pending wrap was dropped)");
    }
    None
}

pub fn resize_relation(b: &Logical, a: &Logical) -> Option<&'static str> {
    let k = b.cur.0;
    for i in 0..k {
        if i >= a.lines.len() || trim(&b.lines[i]) != trim(&a.lines[i]) {
            return Some("a logical line above the cursor's line changed");
        }
    }
    if a.cur.0 != k {
        return Some("the cursor left its logical line");
    }
    if k >= a.lines.len() || k >= b.lines.len() {
        return Some("the cursor's logical line is missing");
    }
    let bl = &b.lines[k];
    let on_char = b.cur.1 < trim(bl).len();
    let pre = trim(&bl[..b.cur.1.min(bl.len())]);
    let al = &a.lines[k];
    if al.len() < pre.len() || &al[..pre.len()] != pre {
        return Some("the text before the cursor changed");
    }
    if on_char && a.cur.1 != b.cur.1 {
        return Some("the cursor moved off its character");
    }
    let t0 = strip_empty(&b.lines[k..]);
    let t1 = strip_empty(&a.lines[k.min(a.lines.len())..]);
    tail_relation(&t0, &t1)
}

/// C16 (resized excursion): the primary's logical lines are re-wrapped, never altered.  With a
/// finite scrollback limit rows may additionally leave at the top (they are trimmed), so the
/// surviving lines are a contiguous run whose first line may have lost its beginning.
/// Ok(true) = holds, with rows lost at the top; Ok(false) = holds strictly.
pub fn rewrap_relation(b: &Logical, a: &Logical, front_loss_allowed: bool) -> Result<bool, &'static str> {
    let t0 = strip_empty(&b.lines);
    let t1 = strip_empty(&a.lines);
    let strict = tail_relation(&t0, &t1);
    match strict {
        None => return Ok(false),
        Some(e) if !front_loss_allowed => return Err(e),
        _ => {}
    }
    if t1.is_empty() {
        return Ok(true);
    }
    let is_suffix = |x: &[MCell], of: &[MCell]| x.len() <= of.len() && &of[of.len() - x.len()..] == x;
    let is_infix = |x: &[MCell], of: &[MCell]| x.is_empty() || of.windows(x.len()).any(|w| w == x);
    for d in 0..t0.len() {
        if d + t1.len() > t0.len() {
            break;
        }
        let first_ok = if t1.len() == 1 { is_infix(t1[0], t0[d]) } else { is_suffix(t1[0], t0[d]) };
        if !first_ok {
            continue;
        }
        if t1.len() == 1 {
            return Ok(true);
        }
        let mid_ok = (1..t1.len() - 1).all(|j| t1[j] == t0[d + j]);
        let last = t1[t1.len() - 1];
        let last0 = t0[d + t1.len() - 1];
        let last_ok = last == last0 || (last0.len() >= last.len() && &last0[..last.len()] == last);
        if mid_ok && last_ok {
            return Ok(true);
        }
    }
    Err(strict.unwrap())
}
