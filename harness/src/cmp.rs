//! Comparison of the real terminal (public API + read-only hook) with the reference model.

use crate::model::parser::{PModel, St};
use crate::model::term::{line_eq, MLine, MPen, Model, Saved};
use avt::verif::VerifState;
use avt::Vt;

#[derive(Clone, Copy, PartialEq, Eq, Debug)]
pub enum MisKind {
    Geometry,
    Cursor,
    PendingCursor,
    Visible,
    AppMode,
    CellChar,
    CellPen,
    Mark,
    Scrollback,
    /// rows `lines()` shows above the view of the alternate screen
    Above,
    HPen,
    HCharset,
    HTabs,
    HInsert,
    HOrigin,
    HAutowrap,
    HNewline,
    HMargins,
    HSaved,
    HScreen,
    HPending,
    HParser,
}

#[derive(Clone, Debug)]
pub struct Mismatch {
    pub kind: MisKind,
    pub msg: String,
}

fn mm(kind: MisKind, msg: String) -> Option<Mismatch> {
    Some(Mismatch { kind, msg })
}

fn line_mismatch(what: &str, i: usize, l: &avt::Line, m: &MLine) -> Option<Mismatch> {
    if line_eq(l, m) {
        return None;
    }
    let real = MLine::of(l);
    let kind = if real.cells.len() != m.cells.len() {
        MisKind::Geometry
    } else if real.cells.iter().zip(&m.cells).any(|(a, b)| a.ch != b.ch) {
        MisKind::CellChar
    } else if real.cells.iter().zip(&m.cells).any(|(a, b)| a.pen != b.pen) {
        MisKind::CellPen
    } else {
        MisKind::Mark
    };
    let mut detail = String::new();
    if kind == MisKind::CellPen {
        if let Some((c, (a, b))) = real.cells.iter().zip(&m.cells).enumerate().find(|(_, (a, b))| a.pen != b.pen) {
            detail = format!(" col {}: real pen {:?} model pen {:?}", c, a.pen, b.pen);
        }
    }
    let kind2 = if what == "scrollback" && kind != MisKind::Geometry { MisKind::Scrollback } else { kind };
    mm(kind2, format!("{} row {}: real {} model {}{}", what, i, real.show(), m.show(), detail))
}

/// Public observables: size, cursor, cursor-key mode, every visible cell / pen / soft-wrap mark,
/// and (primary screen) the scrollback.  `sb_tail`: how many of the newest scrollback lines to
/// compare cell by cell (usize::MAX = all).
pub fn compare_public(vt: &Vt, m: &Model, sb_tail: usize) -> Option<Mismatch> {
    // rows above the view of the alternate screen: no property says how long they linger before the
    // trim that `feed_str` / `resize` perform ("the alternate screen keeps none"), so any newest part of
    // them - also none - is accepted; what is still there must be unaltered
    compare_public_opt(vt, m, sb_tail, false, Above::Newest)
}

/// `trimmed`: the real terminal may have trimmed its scrollback (finite limit, fed through
/// feed_str): what it retains must then be the newest part of the model's scrollback
/// What `Vt::lines()` may hold above the view of the alternate screen.
#[derive(Clone, Copy, PartialEq, Eq, Debug)]
pub enum Above {
    /// exactly the rows scrolled off the top since the last trim
    #[allow(dead_code)]
    Exact,
    /// the newest of them, possibly none (per-character `feed` never trims in the pinned code, but
    /// nothing promises that the rows linger)
    Newest,
    /// nothing: the call that just returned trims
    Nothing,
}

pub fn compare_public_opt(vt: &Vt, m: &Model, sb_tail: usize, trimmed: bool, above: Above) -> Option<Mismatch> {
    if vt.size() != (m.cols, m.rows) {
        return mm(MisKind::Geometry, format!("size real {:?} model {:?}", vt.size(), (m.cols, m.rows)));
    }
    let c = vt.cursor();
    if (c.col, c.row) != (m.col, m.row) {
        let kind = if (c.col == m.cols) != (m.col == m.cols) { MisKind::PendingCursor } else { MisKind::Cursor };
        return mm(kind, format!("cursor real ({},{}) model ({},{})", c.col, c.row, m.col, m.row));
    }
    if c.visible != m.visible {
        return mm(MisKind::Visible, format!("cursor visible real {} model {}", c.visible, m.visible));
    }
    if vt.cursor_key_app_mode() != m.app {
        return mm(MisKind::AppMode, format!("cursor key app mode real {} model {}", vt.cursor_key_app_mode(), m.app));
    }
    let view = vt.view();
    if view.len() != m.view.len() {
        return mm(MisKind::Geometry, format!("view rows real {} model {}", view.len(), m.view.len()));
    }
    for (i, (l, ml)) in view.iter().zip(&m.view).enumerate() {
        if let Some(x) = line_mismatch("view", i, l, ml) {
            return Some(x);
        }
    }
    if !m.alt {
        let lines = vt.lines();
        let sb = &lines[..lines.len() - m.rows];
        if trimmed {
            if sb.len() > m.sb.len() {
                return mm(MisKind::Scrollback, format!("scrollback length real {} exceeds everything scrolled off so far ({})", sb.len(), m.sb.len()));
            }
            let off = m.sb.len() - sb.len();
            for i in 0..sb.len() {
                if let Some(x) = line_mismatch("scrollback", i, &sb[i], &m.sb[off + i]) {
                    return Some(x);
                }
            }
            return None;
        }
        if sb.len() != m.sb.len() {
            return mm(MisKind::Scrollback, format!("scrollback length real {} model {}", sb.len(), m.sb.len()));
        }
        let from = sb.len().saturating_sub(sb_tail);
        for i in from..sb.len() {
            if let Some(x) = line_mismatch("scrollback", i, &sb[i], &m.sb[i]) {
                return Some(x);
            }
        }
    } else {
        let lines = vt.lines();
        let ab = &lines[..lines.len() - m.rows];
        let ok_len = match above {
            Above::Exact => ab.len() == m.above.len(),
            Above::Newest => ab.len() <= m.above.len(),
            Above::Nothing => ab.is_empty(),
        };
        if !ok_len {
            return mm(MisKind::Above, format!("alternate screen: lines() holds {} rows above the view, {} scrolled off the top since the last trim ({:?})", ab.len(), m.above.len(), above));
        }
        let off = m.above.len() - ab.len();
        let from = ab.len().saturating_sub(sb_tail);
        for i in from..ab.len() {
            if let Some(mut x) = line_mismatch("above-view", i, &ab[i], &m.above[off + i]) {
                x.kind = MisKind::Above;
                return Some(x);
            }
        }
    }
    None
}

fn saved_eq(r: &avt::verif::SavedCtxState, m: &Saved, clamp: Option<(usize, usize)>) -> bool {
    let (mut rc, mut rr, mut mc, mut mr, mut xc, mut xr) = (r.cursor_col, r.cursor_row, m.col, m.row, m.xcol, m.xrow);
    if let Some((cols, rows)) = clamp {
        // a parked screen's saved position is clamped when that screen is shown again
        rc = rc.min(cols - 1);
        mc = mc.min(cols - 1);
        xc = xc.min(cols - 1);
        rr = rr.min(rows - 1);
        mr = mr.min(rows - 1);
        xr = xr.min(rows - 1);
    }
    // (U9) clamped at every shrink, or not before it is restored
    ((rc, rr) == (mc, mr) || (rc, rr) == (xc, xr)) && MPen::of(&r.pen) == m.pen && r.origin_mode == m.origin && r.auto_wrap_mode == m.autowrap
}

/// Hidden components, each of which has a public distinguishing continuation (DESIGN §2.1).
pub fn compare_hidden(vs: &VerifState, m: &Model) -> Option<Mismatch> {
    if vs.alternate_active != m.alt {
        return mm(MisKind::HScreen, format!("alternate screen active real {} model {}", vs.alternate_active, m.alt));
    }
    if vs.pending_wrap != (m.col == m.cols) {
        return mm(MisKind::HPending, format!("pending_wrap real {} model col {} of {}", vs.pending_wrap, m.col, m.cols));
    }
    if MPen::of(&vs.pen) != m.pen {
        return mm(MisKind::HPen, format!("pen real {:?} model {:?}", MPen::of(&vs.pen), m.pen));
    }
    if vs.charsets_drawing != m.drawing || vs.active_charset != m.gl {
        return mm(
            MisKind::HCharset,
            format!("charsets real {:?}/{} model {:?}/{}", vs.charsets_drawing, vs.active_charset, m.drawing, m.gl),
        );
    }
    if !vs.tabs.iter().copied().eq(m.tabs.iter().copied()) {
        return mm(MisKind::HTabs, format!("tab stops real {:?} model {:?}", vs.tabs, m.tabs));
    }
    if vs.insert_mode != m.insert {
        return mm(MisKind::HInsert, format!("insert mode real {} model {}", vs.insert_mode, m.insert));
    }
    if vs.origin_mode != m.origin {
        return mm(MisKind::HOrigin, format!("origin mode real {} model {}", vs.origin_mode, m.origin));
    }
    if vs.auto_wrap_mode != m.autowrap {
        return mm(MisKind::HAutowrap, format!("auto-wrap real {} model {}", vs.auto_wrap_mode, m.autowrap));
    }
    if vs.new_line_mode != m.newline {
        return mm(MisKind::HNewline, format!("new-line mode real {} model {}", vs.new_line_mode, m.newline));
    }
    if (vs.top_margin, vs.bottom_margin) != (m.top, m.bottom) {
        return mm(
            MisKind::HMargins,
            format!("margins real {}..{} model {}..{}", vs.top_margin, vs.bottom_margin, m.top, m.bottom),
        );
    }
    // positions are compared as a restore would see them - clamped to the current size: whether a
    // saved position is clamped when the screen shrinks or only when it is restored is not promised
    // (C17: "the restored position still lies inside the screen")
    if !saved_eq(&vs.saved_ctx, &m.saved, Some((m.cols, m.rows))) {
        return mm(MisKind::HSaved, format!("saved context real {:?} model {:?}", vs.saved_ctx, m.saved));
    }
    if !saved_eq(&vs.other_saved_ctx, &m.other_saved, Some((m.cols, m.rows))) {
        return mm(
            MisKind::HSaved,
            format!("other screen's saved context real {:?} model {:?}", vs.other_saved_ctx, m.other_saved),
        );
    }
    None
}

/// Parser registers, compared only where they are live (canonical form).
pub fn compare_parser(vs: &VerifState, pm: &PModel) -> Option<Mismatch> {
    compare_pstate(vs.parser.as_ref()?, pm)
}

pub fn compare_pstate(p: &avt::verif::ParserState, pm: &PModel) -> Option<Mismatch> {
    if St::of(p.state) != pm.st {
        return mm(MisKind::HParser, format!("parser state real {:?} model {:?}", p.state, pm.st));
    }
    if pm.unspecified {
        return None;
    }
    if matches!(pm.st, St::CsiParam | St::DcsParam) {
        let real: Vec<Vec<u32>> =
            p.params[..=p.cur_param].iter().map(|(cp, parts)| parts[..=*cp].iter().map(|v| *v as u32).collect()).collect();
        if real != pm.params {
            return mm(MisKind::HParser, format!("parser params real {:?} model {:?}", real, pm.params));
        }
    }
    if matches!(pm.st, St::EscInt | St::CsiParam | St::CsiInt | St::DcsParam | St::DcsInt) && pm.inter.len() <= 1 {
        if p.intermediate != pm.inter.last().copied() {
            return mm(MisKind::HParser, format!("parser intermediate real {:?} model {:?}", p.intermediate, pm.inter));
        }
    }
    // memoryless: right after an introducer nothing is collected yet.  Only the registers a dispatch
    // at this point would read are judged (the current slot and the intermediate); whether the slots
    // beyond are wiped now or when a separator reaches them is the implementation's business - stale
    // content there is caught where it matters, when a dispatch hands it out (table / pair monitors)
    if matches!(pm.st, St::CsiEntry | St::DcsEntry | St::Escape) {
        let Some((cp, parts)) = p.params.first() else { return None };
        if p.cur_param != 0 || p.intermediate.is_some() || *cp != 0 || parts[0] != 0 {
            return mm(MisKind::HParser, format!("parser registers not clean after an introducer: {:?}", p));
        }
    }
    None
}
