//! Small deterministic PRNG (SplitMix64); no third-party crates are available offline.

#[derive(Clone, Debug)]
pub struct Rng(pub u64);

pub fn mix(a: u64, b: u64) -> u64 {
    let mut z = a ^ b.wrapping_mul(0x9E37_79B9_7F4A_7C15).rotate_left(17);
    z = (z ^ (z >> 30)).wrapping_mul(0xBF58_476D_1CE4_E5B9);
    z = (z ^ (z >> 27)).wrapping_mul(0x94D0_49BB_1331_11EB);
    z ^ (z >> 31)
}

impl Rng {
    pub fn new(seed: u64) -> Self {
        Rng(mix(seed, 0x5851_F42D_4C95_7F2D))
    }
    pub fn derive(seed: u64, parts: &[u64]) -> Self {
        let mut s = mix(seed, 0xA076_1D64_78BD_642F);
        for p in parts {
            s = mix(s, *p);
        }
        Rng(s)
    }
    pub fn next(&mut self) -> u64 {
        self.0 = self.0.wrapping_add(0x9E37_79B9_7F4A_7C15);
        let mut z = self.0;
        z = (z ^ (z >> 30)).wrapping_mul(0xBF58_476D_1CE4_E5B9);
        z = (z ^ (z >> 27)).wrapping_mul(0x94D0_49BB_1331_11EB);
        z ^ (z >> 31)
    }
    /// uniform in 0..n (n >= 1)
    pub fn below(&mut self, n: usize) -> usize {
        (self.next() % (n.max(1) as u64)) as usize
    }
    /// uniform in a..=b
    pub fn range(&mut self, a: usize, b: usize) -> usize {
        a + self.below(b - a + 1)
    }
    pub fn chance(&mut self, num: usize, den: usize) -> bool {
        self.below(den) < num
    }
    pub fn pick<'a, T>(&mut self, xs: &'a [T]) -> &'a T {
        &xs[self.below(xs.len())]
    }
    /// pick an index according to integer weights
    pub fn weighted(&mut self, ws: &[u32]) -> usize {
        let total: u64 = ws.iter().map(|w| *w as u64).sum();
        let mut x = self.next() % total.max(1);
        for (i, w) in ws.iter().enumerate() {
            if x < *w as u64 {
                return i;
            }
            x -= *w as u64;
        }
        ws.len() - 1
    }
}
