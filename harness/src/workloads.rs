//! Enumerated workloads: G2 (bounded-exhaustive sequences over an alphabet of atomic inputs on tiny
//! screens) and G3 (state x command cross products).

use crate::hist::{Call, History};

pub const G2_SIZES: &[(usize, usize)] =
    &[(1, 1), (2, 1), (3, 1), (4, 1), (1, 2), (2, 2), (3, 2), (4, 2), (1, 3), (2, 3), (3, 3), (4, 3), (5, 4)];

pub fn g2_alphabet(prop: &str) -> Vec<&'static str> {
    match prop {
        "C04" => vec![
            "a", "b", "q", "\u{e9}", "\x7f", "\u{4e16}", "\r", "\n", "\x1b[?7l", "\x1b[?7h", "\x1b[4h", "\x1b[4l", "\x1b(0", "\x1b(B", "\x0e", "\x0f",
            "\x1b)0", "\x1b[b", "\x1b[3b", "\x1b[65535b", "\x1b[1;2r", "\x1b[2;3r", "\x1b[H", "\x1b[9;9H", "\x1b[2;1H", "\x1b[41m", "\x1b[?1047h", "\x1b[C",
        ],
        "C05" => vec![
            "\x1b[A", "\x1b[2A", "\x1b[65535A", "\x1b[B", "\x1b[2B", "\x1b[65535B", "\x1b[C", "\x1b[2C", "\x1b[D", "\x1b[2D", "\x1b[E", "\x1b[F", "\x1b[G",
            "\x1b[2G", "\x1b[9`", "\x1b[d", "\x1b[2d", "\x1b[9d", "\x1b[e", "\x1b[a", "\x1b[H", "\x1b[2;2f", "\x1b[9;9H", "\x08", "\r", "\n", "\t", "\x1b[Z",
            "\x1bM", "\x1bD", "\x1bE", "\x1b[?6h", "\x1b[?6l", "\x1b[1;2r", "\x1b[2;3r", "\x1b[r", "\x1b[2;1r", "a", "ab", "\x1b[20h",
        ],
        "C06" => vec![
            "\n", "\x1bM", "\x1bD", "\x1bE", "\x1b[S", "\x1b[2S", "\x1b[65535S", "\x1b[T", "\x1b[2T", "\x1b[L", "\x1b[2L", "\x1b[65535L", "\x1b[M", "\x1b[2M",
            "\x1b[65535M", "\x1b[1;2r", "\x1b[2;3r", "\x1b[r", "\x1b[3;1r", "\x1b[H", "\x1b[2;1H", "\x1b[9;1H", "a", "b", "abcde", "\x1b[41m", "\x1b[m",
            "\x1b[?1047h", "\x1b[?1047l", "\x1b[?6h", "\r\n",
        ],
        "C07" => vec![
            "\x1b[J", "\x1b[1J", "\x1b[2J", "\x1b[3J", "\x1b[K", "\x1b[1K", "\x1b[2K", "\x1b[X", "\x1b[2X", "\x1b[65535X", "\x1b[@", "\x1b[2@", "\x1b[65535@",
            "\x1b[P", "\x1b[2P", "\x1b[65535P", "\x1b#8", "a", "b", "abc", "abcde", "\x1b[41m", "\x1b[1m", "\x1b[m", "\x1b[H", "\x1b[2;2H", "\x1b[9;9H",
            "\x1b[C", "\x1b[D", "\r", "\n",
        ],
        "C08" => vec![
            "\x1b[m", "\x1b[0m", "\x1b[1m", "\x1b[2m", "\x1b[3m", "\x1b[4m", "\x1b[5m", "\x1b[7m", "\x1b[9m", "\x1b[21m", "\x1b[22m", "\x1b[23m", "\x1b[24m",
            "\x1b[25m", "\x1b[27m", "\x1b[29m", "\x1b[31m", "\x1b[39m", "\x1b[42m", "\x1b[49m", "\x1b[93m", "\x1b[104m", "\x1b[38;5;200m", "\x1b[48:5:17m",
            "\x1b[38;2;1;2;3m", "\x1b[48:2::4:5:6m", "\x1b[1;31;42m", "\x1b[;1m", "\x1b[6;1;58;3m", "a", "\x1b[K", "\x1b[X", "\n", "\x1b[L",
        ],
        "C16" => vec![
            "\x1b[?47h", "\x1b[?47l", "\x1b[?1047h", "\x1b[?1047l", "\x1b[?1049h", "\x1b[?1049l", "a", "abcde", "\n", "\r", "\x1b[H", "\x1b[2;2H", "\x1b[J",
            "\x1b[2J", "\x1b[41m", "\x1b[m", "\x1b7", "\x1b8", "\x1b[S", "\x1b[L", "\x1bM", "\x1b[?6h", "\x1b[2;3r", "\x1b#8",
        ],
        "C17" => vec![
            "\x1b7", "\x1b8", "\x1b[s", "\x1b[u", "\x1b[?1048h", "\x1b[?1048l", "\x1b[?1049h", "\x1b[?1049l", "\x1b[?1047h", "\x1b[?1047l", "\x1b[!p", "a",
            "\x1b[?1047;1048h", "\x1b[?1048;47h", "\x1b[?1047;1048l", "\x1b[?1049;1048h",
            "ab", "\x1b[H", "\x1b[2;2H", "\x1b[9;9H", "\x1b[C", "\x1b[B", "\x1b[31m", "\x1b[1;44m", "\x1b[m", "\x1b[?6h", "\x1b[?6l", "\x1b[?7l", "\x1b[?7h",
            "\x1b[2;3r", "\x1b[1;2r", "\n", "\x1b[K",
        ],
        "C18" => vec![
            "\x1bH", "\u{88}", "\x1b[W", "\x1b[0W", "\x1b[2W", "\x1b[5W", "\x1b[g", "\x1b[0g", "\x1b[3g", "\t", "\x1b[I", "\x1b[2I", "\x1b[65535I", "\x1b[Z",
            "\x1b[2Z", "\x1b[65535Z", "\r", "\x1b[C", "\x1b[2C", "\x1b[D", "\x1b[G", "\x1b[3G", "\x1b[9G", "a", "abc", "\x1b[1W", "\x1b[1g",
        ],
        "C20" => vec![
            "\x1b]0;t\x07", "\x1b]x\x1b\\", "\u{9d}y\u{9c}", "\x1bPq#1\x1b\\", "\u{90}1;2|z\u{9c}", "\x1bXs\x1b\\", "\x1b^p\u{9c}", "\x1b_a\x1b\\", "\u{9f}\u{9c}",
            "\x1b[5n", "\x1b[>c", "\x1b[=1c", "\x1b[<1;2M", "\x1b[1 q", "\x1b[?5n", "\x1b[1$r", "\x1b=", "\x1b>", "\x1bN", "\x1b%G", "\x1b#3", "\x00", "\x07",
            "\u{81}", "\u{9c}", "\x1b[4J", "\x1b[8;2;2t", "a", "\x1b[2;2H", "\x1b[?1047h", "\x1b[?6h", "\x1b[4h",
        ],
        _ => vec![
            "a", "abcde", "\r", "\n", "\x08", "\t", "\x1b[A", "\x1b[B", "\x1b[C", "\x1b[D", "\x1b[H", "\x1b[2;2H", "\x1b[9;9H", "\x1bM", "\x1b[S", "\x1b[T",
            "\x1b[L", "\x1b[M", "\x1b[J", "\x1b[1J", "\x1b[K", "\x1b[1K", "\x1b[X", "\x1b[@", "\x1b[P", "\x1b[2b", "\x1b#8", "\x1b[41m", "\x1b[m", "\x1b[2;3r",
            "\x1b[1;2r", "\x1b[?6h", "\x1b[?7l", "\x1b[4h", "\x1b(0", "\x0e", "\x1b7", "\x1b8", "\x1b[?1047h", "\x1b[?1047l", "\x1b[?1049h", "\x1b[?1049l",
            "\x1b[!p", "\x1bH", "\x1b[3g", "\x1b]0;t\x07", "\x1b[5n",
        ],
    }
}

/// the `index`-th sequence of length `k` over `alphabet` (mixed radix), each atom its own call
pub fn g2_history(size: (usize, usize), alphabet: &[&'static str], mut index: usize, k: usize) -> History {
    let mut h = History::new(size.0, size.1, None);
    for _ in 0..k {
        let a = alphabet[index % alphabet.len()];
        index /= alphabet.len();
        h.calls.push(Call::FeedStr(a.to_string()));
    }
    h
}

pub fn g2_count(alphabet: &[&'static str], k: usize) -> usize {
    alphabet.len().pow(k as u32)
}

// ---------------------------------------------------------------------------------------------
// G3: (content x margins x modes x cursor position x command)

pub const G3_SIZES_QUICK: &[(usize, usize)] = &[(1, 1), (2, 2), (3, 3), (5, 4), (4, 2), (1, 4), (6, 1)];
pub const G3_SIZES_THOROUGH: &[(usize, usize)] =
    &[(1, 1), (2, 1), (1, 2), (2, 2), (3, 2), (3, 3), (4, 3), (2, 4), (5, 4), (6, 5), (4, 2), (1, 5), (6, 1), (9, 3), (17, 2)];

#[derive(Clone, Debug)]
pub struct G3Space {
    pub cols: usize,
    pub rows: usize,
    pub contents: usize,
    pub margins: Vec<Option<(usize, usize)>>, // 1-based (top, bottom)
    pub modes: Vec<u8>,                        // bit0 origin, bit1 awm off, bit2 irm, bit3 alt, bit4 coloured pen, bit5 drawing
    pub positions: Vec<(usize, usize)>,        // (row, col) 0-based, col == cols: wrap pending
    pub commands: Vec<String>,
}

impl G3Space {
    pub fn new(cols: usize, rows: usize, mode_bits: &[u8], commands: Vec<String>) -> G3Space {
        let mut margins = vec![None];
        for t in 1..rows {
            for b in t + 1..=rows {
                if !(t == 1 && b == rows) {
                    margins.push(Some((t, b)));
                }
            }
        }
        // every subset of the requested mode bits
        let mut modes = vec![];
        for s in 0..(1u32 << mode_bits.len()) {
            let mut m = 0u8;
            for (i, b) in mode_bits.iter().enumerate() {
                if s & (1 << i) != 0 {
                    m |= 1 << *b;
                }
            }
            modes.push(m);
        }
        let mut positions = vec![];
        for r in 0..rows {
            for c in 0..=cols {
                positions.push((r, c));
            }
        }
        G3Space { cols, rows, contents: 4, margins, modes, positions, commands }
    }

    pub fn count(&self) -> usize {
        self.contents * self.margins.len() * self.modes.len() * self.positions.len() * self.commands.len()
    }

    pub fn history(&self, mut i: usize) -> History {
        let mut take = |n: usize| {
            let v = i % n;
            i /= n;
            v
        };
        let cmd = &self.commands[take(self.commands.len())];
        let pos = self.positions[take(self.positions.len())];
        let mode = self.modes[take(self.modes.len())];
        let margin = self.margins[take(self.margins.len())];
        let content = take(self.contents);
        let mut h = History::new(self.cols, self.rows, None);
        h.calls.push(Call::FeedStr(self.setup(content, margin, mode, pos)));
        h.calls.push(Call::FeedStr(cmd.clone()));
        h
    }

    /// Drive the terminal into (content, margins, modes, cursor position).
    pub fn setup(&self, content: usize, margin: Option<(usize, usize)>, mode: u8, pos: (usize, usize)) -> String {
        let (cols, rows) = (self.cols, self.rows);
        let mut s = String::new();
        if mode & 8 != 0 {
            s.push_str("\x1b[?1047h");
        }
        // content
        match content {
            0 => {}
            1 => {
                // every row full of distinct letters, no soft-wrap marks
                for r in 0..rows {
                    s.push_str(&format!("\x1b[{};1H", r + 1));
                    for c in 0..cols {
                        s.push((b'a' + ((r * 7 + c) % 26) as u8) as char);
                    }
                }
            }
            2 => {
                // one long logical line: every row but the last carries a soft-wrap mark
                s.push_str("\x1b[H");
                for i in 0..rows * cols {
                    s.push((b'A' + (i % 26) as u8) as char);
                }
            }
            _ => {
                // coloured text, alternating marked and unmarked rows
                s.push_str("\x1b[H\x1b[32;45m");
                for r in 0..rows {
                    let n = if r % 2 == 0 { cols + 1 } else { cols.saturating_sub(1) };
                    for c in 0..n {
                        s.push((b'k' + ((r + c) % 10) as u8) as char);
                    }
                    if r + 1 < rows {
                        s.push_str("\r\n");
                    }
                }
                s.push_str("\x1b[m");
            }
        }
        if mode & 16 != 0 {
            s.push_str("\x1b[1;33;44m");
        }
        let (row, col) = pos;
        let ccol = col.min(cols - 1);
        if mode & 1 != 0 {
            // origin mode with the cursor anywhere (also outside the region): address it with a
            // full-screen region, save, set the margins (homes), restore
            s.push_str(&format!("\x1b[r\x1b[?6h\x1b[{};{}H\x1b7", row + 1, ccol + 1));
            if let Some((t, b)) = margin {
                s.push_str(&format!("\x1b[{};{}r", t, b));
            }
            s.push_str("\x1b8");
        } else {
            if let Some((t, b)) = margin {
                s.push_str(&format!("\x1b[{};{}r", t, b));
            }
            s.push_str(&format!("\x1b[{};{}H", row + 1, ccol + 1));
        }
        if col == cols {
            // reach the wrap-pending position by printing in the last column
            s.push('x');
        }
        if mode & 2 != 0 {
            s.push_str("\x1b[?7l");
        }
        if mode & 4 != 0 {
            s.push_str("\x1b[4h");
        }
        if mode & 32 != 0 {
            s.push_str("\x1b(0");
        }
        s
    }
}

fn counts(edge: usize) -> Vec<String> {
    let mut v = vec![String::new(), "0".into(), "1".into(), "2".into()];
    for n in [edge.saturating_sub(1), edge, edge + 1, 65535] {
        let s = n.to_string();
        if !v.contains(&s) {
            v.push(s);
        }
    }
    v
}

pub fn g3_commands(prop: &str, cols: usize, rows: usize) -> Vec<String> {
    let mut v = Vec::new();
    let with = |v: &mut Vec<String>, finals: &str, edge: usize| {
        for f in finals.chars() {
            for n in counts(edge) {
                v.push(format!("\x1b[{}{}", n, f));
            }
        }
    };
    match prop {
        "C04" => {
            for t in ["a", "\x7f", "\u{e9}", "\u{4e16}", "q", "ab", "abc"] {
                v.push(t.to_string());
            }
            with(&mut v, "b", cols);
            v.push("a\x1b[2b".into());
            v.push("\x0eq".into());
            v.push("\x1b)0\x0ea\x0fa".into());
        }
        "C05" => {
            with(&mut v, "CDG`aIZ", cols);
            with(&mut v, "ABEFde", rows);
            for r in counts(rows) {
                for c in counts(cols) {
                    v.push(format!("\x1b[{};{}H", r, c));
                }
            }
            v.push("\x1b[5f".into());
            for c in ["\x08", "\r", "\n", "\x0b", "\x0c", "\t", "\x1bM", "\x1bD", "\x1bE", "\u{84}", "\u{85}", "\u{8d}", "\x1b[?6h", "\x1b[?6l", "\x1b[r"] {
                v.push(c.to_string());
            }
            for t in counts(rows) {
                for b in counts(rows) {
                    v.push(format!("\x1b[{};{}r", t, b));
                }
            }
        }
        "C06" => {
            with(&mut v, "STLM", rows);
            for c in ["\n", "\x1bM", "\x1bD", "\x1bE", "\u{84}", "\u{85}", "\u{8d}", "ab", "\x0b"] {
                v.push(c.to_string());
            }
            for t in counts(rows) {
                for b in counts(rows) {
                    v.push(format!("\x1b[{};{}r\x1b[S", t, b));
                }
            }
        }
        "C17" => {
            for c in ["\x1b8X", "\x1b[uX", "\x1b[?1048lX", "\x1b8\x1b[1;1HY\x1b[99;99HZZ", "\x1b7\x1b[2;2H\x1b8X", "\x1b[?1049h\x1b8X", "\x1b[?1049lX", "\x1b[!p\x1b8X"] {
                v.push(c.to_string());
            }
        }
        "C18" => {
            for c in ["\r\t.", "\r\t\t\t.", "\x1b[99G\x1b[Z.", "\x1b[99G\x1b[3Z.", "\x1bH\r\t.", "\x1b[g\r\t\t.", "\r\x1b[2I.", "\x1b[3g\r\t."] {
                v.push(c.to_string());
            }
        }
        "C07" => {
            with(&mut v, "X@P", cols);
            for c in ["\x1b[J", "\x1b[0J", "\x1b[1J", "\x1b[2J", "\x1b[3J", "\x1b[K", "\x1b[0K", "\x1b[1K", "\x1b[2K", "\x1b#8"] {
                v.push(c.to_string());
            }
        }
        _ => {}
    }
    v
}

// ---------------------------------------------------------------------------------------------
// G3s: scenarios across screen switches and resizes, then one command of the property

pub struct Scenario {
    pub cols: usize,
    pub rows: usize,
    pub commands: Vec<String>,
    /// property-specific operations executed after the first resize (on the alternate screen when
    /// one was entered)
    pub mid: Vec<String>,
}

pub fn scenario_mid(prop: &str) -> Vec<String> {
    let v: &[&str] = match prop {
        "C18" => &["", "\x1b[3g", "\x1b[9G\x1b[g", "\x1b[5G\x1bH", "\x1b[8G\x1b[2W"],
        "C17" => &["", "\x1b[3;3H\x1b[7m\x1b7", "\x1b[!p", "\x1b[?1048h"],
        "C04" => &["", "\x1b(0", "\x1b[4h"],
        _ => &[""],
    };
    v.iter().map(|s| s.to_string()).collect()
}

impl Scenario {
    const PRE: usize = 2;
    const ENTER: usize = 3;
    const RESIZE: usize = 4;
    const STBM: usize = 3;
    const ORIGIN: usize = 2;
    const LEAVE: usize = 8;

    pub fn count(&self) -> usize {
        Self::PRE * Self::ENTER * Self::RESIZE * Self::STBM * Self::ORIGIN * Self::LEAVE * Self::RESIZE * self.commands.len() * self.mid.len()
    }

    fn resize(&self, k: usize, c: usize, r: usize) -> Option<(usize, usize)> {
        match k {
            0 => None,
            1 => Some((c, r + 2)),
            2 => Some((c + 3, r)),
            _ => Some((c.saturating_sub(1).max(1), r.saturating_sub(1).max(1))),
        }
    }

    pub fn history(&self, mut i: usize) -> History {
        let mut take = |n: usize| {
            let v = i % n;
            i /= n;
            v
        };
        let cmd = self.commands[take(self.commands.len())].clone();
        let mid = self.mid[take(self.mid.len())].clone();
        let rs2 = take(Self::RESIZE);
        let leave = take(Self::LEAVE);
        let origin = take(Self::ORIGIN);
        let stbm = take(Self::STBM);
        let rs1 = take(Self::RESIZE);
        let enter = take(Self::ENTER);
        let pre = take(Self::PRE);
        let mut h = History::new(self.cols, self.rows, None);
        let (mut c, mut r) = (self.cols, self.rows);
        let mut s = String::new();
        if pre == 1 {
            for k in 0..r + 2 {
                s.push_str(&format!("line{}", k));
                s.push_str(if k % 3 == 2 { "xxxxxxxxxxxx\r\n" } else { "\r\n" });
            }
            s.push_str("\x1b[2;3H\x1b7\x1bH");
        }
        s.push_str(["", "\x1b[?1047h", "\x1b[?1049h"][enter]);
        h.calls.push(Call::FeedStr(std::mem::take(&mut s)));
        if let Some((c2, r2)) = self.resize(rs1, c, r) {
            h.calls.push(Call::Resize(c2, r2));
            c = c2;
            r = r2;
        }
        s.push_str(&mid);
        match stbm {
            1 if r >= 3 => s.push_str("\x1b[2;3r"),
            2 if r >= 2 => s.push_str(&format!("\x1b[1;{}r", r - 1)),
            _ => {}
        }
        if origin == 1 {
            s.push_str("\x1b[?6h");
        }
        s.push_str("\x1b[2;2HQ\x1b7");
        // (then: leaving merged with an origin-mode reset in one mode list, either order; leaving with the
        // cursor in the wrap-pending position)
        s.push_str(["", "\x1b[?1047l", "\x1b[?1049l", "\x1b[?1047;6l", "\x1b[?1049;6l", "\x1b[?6;1047l", "\x1b[1;999HZ\x1b[?1047l", "\x1b[1;999HZ\x1b[?47l"][leave]);
        h.calls.push(Call::FeedStr(std::mem::take(&mut s)));
        if let Some((c2, r2)) = self.resize(rs2, c, r) {
            h.calls.push(Call::Resize(c2, r2));
        }
        h.calls.push(Call::FeedStr(cmd));
        h.calls.push(Call::FeedStr("\n\n\n\n\n\n\n\x1bM\x1bM\x1bM\x1bM\x1bM\x1bM\x1bM".into()));
        h
    }
}

// ---------------------------------------------------------------------------------------------
// State product: every combination of the hidden components dump() / RIS have to deal with

pub const STATE_BITS: usize = 14;
pub const STATE_SAVED: usize = 4;

pub fn state_count() -> usize {
    (1 << STATE_BITS) * STATE_SAVED * STATE_SAVED
}

fn saved_script(kind: usize, cols: usize, rows: usize) -> String {
    // leaves a saved context of the given kind on the current screen; modes are put back afterwards
    match kind {
        0 => String::new(),
        1 => format!("\x1b[{};{}H\x1b[1;35;42m\x1b7\x1b[m", rows, cols.min(3)),
        2 => format!("\x1b[?7l\x1b[{};{}H\x1b7\x1b[?7h", 1, cols),
        _ => format!("\x1b[?6h\x1b[{};2H\x1b[3m\x1b7\x1b[m\x1b[?6l", rows.min(2)),
    }
}

/// script that drives a fresh cols x rows terminal into combination `i`
pub fn state_script(mut i: usize, cols: usize, rows: usize) -> String {
    let mut bit = || {
        let b = i & 1 == 1;
        i >>= 1;
        b
    };
    let (alt, origin, awm_off, irm, lnm, ckm, hidden, margins, pending, g0, g1, so, tabs, pen) =
        (bit(), bit(), bit(), bit(), bit(), bit(), bit(), bit(), bit(), bit(), bit(), bit(), bit(), bit());
    let sp = i % STATE_SAVED;
    let sa = (i / STATE_SAVED) % STATE_SAVED;
    let mut s = String::new();
    // primary content: a wrapped line, a coloured row, a run of equal characters (REP encoding)
    s.push_str("\x1b[Hprimary");
    for _ in 0..cols {
        s.push('w');
    }
    s.push_str("\r\n\x1b[44mcolour\x1b[m\r\nrrrrrrrrrrrr");
    s.push_str(&saved_script(sp, cols, rows));
    if alt || sa != 0 {
        s.push_str("\x1b[?1047h");
        if alt {
            s.push_str("\x1b[2;1Halt\x1b[31mred\x1b[m");
        }
        s.push_str(&saved_script(sa, cols, rows));
        if !alt {
            s.push_str("\x1b[?1047l");
        }
    }
    if tabs {
        s.push_str("\x1b[3g\x1b[1;3H\x1bH\x1b[1;6H\x1bH");
    }
    if margins && rows >= 3 {
        s.push_str("\x1b[2;3r");
    }
    if origin {
        s.push_str("\x1b[?6h");
    }
    // cursor: inside the region (origin-relative addressing keeps it there)
    if pending {
        s.push_str(&format!("\x1b[2;{}Hp", cols));
    } else {
        s.push_str("\x1b[2;2H");
    }
    if pen {
        s.push_str("\x1b[1;3;38;5;200;48;2;1;2;3m");
    }
    if g0 {
        s.push_str("\x1b(0");
    }
    if g1 {
        s.push_str("\x1b)0");
    }
    if so {
        s.push('\x0e');
    }
    if irm {
        s.push_str("\x1b[4h");
    }
    if lnm {
        s.push_str("\x1b[20h");
    }
    if ckm {
        s.push_str("\x1b[?1h");
    }
    if hidden {
        s.push_str("\x1b[?25l");
    }
    if awm_off {
        s.push_str("\x1b[?7l");
    }
    s
}

// ---------------------------------------------------------------------------------------------
// G3w "sandwich": command A, a perturbation, command A again (same pen) - aimed at stale caches,
// fast paths and bookkeeping that is only invalidated on some of the paths that should do so

pub fn sandwich_histories(prop: &str, cols: usize, rows: usize) -> Vec<History> {
    let cmds = g3_commands(prop, cols, rows);
    let lf = "\n".repeat(rows + 1);
    let ri = "\x1bM".repeat(rows + 1);
    let crlf = "\r\n".repeat(rows);
    let perturb: Vec<Vec<Call>> = vec![
        vec![Call::FeedStr(lf.clone())],
        vec![Call::FeedStr(format!("\x1b[{};1H{}", rows, lf))],
        vec![Call::FeedStr("\x1b[S".into())],
        vec![Call::FeedStr("\x1b[2S".into())],
        vec![Call::FeedStr("\x1b[T".into())],
        vec![Call::FeedStr(ri)],
        vec![Call::FeedStr("\x1b[H\x1b[L".into())],
        vec![Call::FeedStr("\x1b[H\x1b[M".into())],
        vec![Call::FeedStr("x".into())],
        vec![Call::FeedStr(crlf)],
        vec![Call::Resize(cols + 1, rows)],
        vec![Call::Resize(cols, rows + 1)],
        vec![Call::Resize(cols.saturating_sub(1).max(1), rows.saturating_sub(1).max(1))],
        vec![Call::Resize(cols + 2, rows), Call::Resize(cols, rows)],
        vec![Call::FeedStr("\x1b[?1047h\x1b[?1047l".into())],
        vec![Call::FeedStr("\x1b[?1049hq\x1b[?1049l".into())],
        vec![Call::FeedStr("\x1b[?1047h".into())],
        vec![Call::FeedStr("\x1b[2;3r".into())],
        vec![Call::FeedStr("\x1b[?6h".into())],
        vec![Call::FeedStr("\x1b#8".into())],
        vec![Call::FeedStr("\x1b[2J".into())],
        vec![Call::FeedStr("\x1b[K\x1b[X".into())],
        vec![Call::FeedStr("\x1b[@\x1b[P".into())],
        vec![Call::FeedStr("\x1b[!p".into())],
        vec![Call::FeedStr("\x1b7\x1b[2;2H\x1b8".into())],
        vec![Call::FeedStr("\t\x1b[4h\x1b[?7l".into())],
        vec![Call::FeedStr(format!("\x1b[{};{}Hyy", rows, cols))],
        vec![],
    ];
    let pens = ["\x1b[m", "\x1b[41m", "\x1b[1;4;38;5;100m"];
    let pre = ["", "ab\r\ncdefgh"];
    let mut out = Vec::new();
    for a in &cmds {
        for (yi, y) in perturb.iter().enumerate() {
            for (pi, p) in pens.iter().enumerate() {
                let q = pens[(pi + 1 + yi % 2) % pens.len()];
                let mut h = History::new(cols, rows, None);
                h.calls.push(Call::FeedStr(format!("{}{}{}", pre[(yi + pi) % 2], p, a)));
                h.calls.push(Call::FeedStr(q.to_string()));
                h.calls.extend(y.iter().cloned());
                h.calls.push(Call::FeedStr(format!("{}{}", p, a)));
                h.calls.push(Call::FeedStr("\x1b[mz".into()));
                out.push(h);
            }
        }
    }
    out
}

// ------------------------------------------------------------------------------------------ GX
// Extreme dimensions for the differential monitor: one dimension at or beyond 2^16, the other tiny
// (such a screen has ~1e5 cells).  Parameters stay within the promised 0..=65535, so the far part of
// the screen is reached by repeating relative moves.

pub const GX_TALL: &[(usize, usize)] = &[(1, 65536), (2, 65537), (2, 65600), (1, 70_000), (3, 131_072), (2, 65535)];
pub const GX_WIDE: &[(usize, usize)] = &[(65536, 1), (65537, 2), (65600, 2), (70_000, 1), (131_073, 2), (65535, 2)];

fn numbers_in_range(s: &str) -> bool {
    let mut cur: u64 = 0;
    for ch in s.chars() {
        if let Some(d) = ch.to_digit(10) {
            cur = (cur * 10 + d as u64).min(1 << 40);
            if cur > 65535 {
                return false;
            }
        } else {
            cur = 0;
        }
    }
    true
}

pub fn gx_history(prop: &str, r: &mut crate::rng::Rng, size: (usize, usize)) -> History {
    let (c, rw) = size;
    let mut h = History::new(c, rw, if r.chance(1, 3) { Some(3) } else { None });
    let margins = ["", "", "\x1b[r", "\x1b[5r", "\x1b[5;r", "\x1b[;65535r", "\x1b[65000;65535r", "\x1b[2;65535r", "\x1b[2;0r", "\x1b[3;9r"];
    let places = [
        "",
        "\x1b[65535;65535H",
        "\x1b[65535;65535H\x1b[65535B\x1b[65535C",
        "\x1b[65535B\x1b[65535B\x1b[65535B",
        "\x1b[65535C\x1b[65535C\x1b[65535C",
        "\x1b[32768;2H",
        "\x1b[1;32768H",
        "\x1b[65535;65535H\x1b[4B\x1b[4C",
        "\x1b[65535;65535H\x1b[65535e\x1b[65535a",
    ];
    let general = [
        "ab", "abc", "\n", "\r", "\x1bM", "\x1b[A", "\x1b[65535B", "\x1b[65535C", "\x1b[65535A", "\x1b[65535D", "\x1b[65535;65535H", "\x1b[H", "\x1b[2J", "\x1b[K", "\x1b[1K",
        "\x1b[J", "\x1b[1J", "\x1b[65535X", "\x1b[65535@", "\x1b[65535P", "\x1b[65535L", "\x1b[65535M", "\x1b[65535S", "\x1b[65535T", "\x1b[S", "\x1b[T", "\x1b[L", "\x1b[M", "\t", "\x1b[65535I",
        "\x1b[Z", "\x1bH", "\x1b[g", "\x1b7", "\x1b8", "\x1b[?6h", "\x1b[?6l", "\x1b[?7l", "\x1b[?7h", "\x1b[41m", "\x1b[m", "\x1b[65535b", "\x1b[r", "\x1b[5r", "\x1b[;65535r",
        "\x1b[65000;65535r", "\x1b[2;r", "\x1b[65535d", "\x1b[65535G", "\x1b[65535e", "\x1b[65535a", "\x1b#8", "\x1bD", "\x1bE", "\x1b[65535E", "\x1b[65535F", "\x1b[?1047h", "\x1b[?1049l",
    ];
    let own: Vec<String> = g3_commands(prop, c, rw).into_iter().filter(|s| numbers_in_range(s)).collect();
    let mut s = String::new();
    s.push_str(*r.pick(&margins));
    if r.chance(1, 3) {
        s.push_str("\x1b[?6h");
    }
    if r.chance(1, 2) {
        s.push_str("\x1b[44m");
    }
    s.push_str(*r.pick(&places));
    h.calls.push(Call::FeedStr(s));
    for _ in 0..r.range(2, 6) {
        let t = if !own.is_empty() && r.chance(1, 2) { r.pick(&own).clone() } else { r.pick(&general).to_string() };
        h.calls.push(Call::FeedStr(t));
    }
    h
}
