//! Snapshots of everything observable about a terminal (public API) plus the hooked hidden state;
//! used by the relational (two-execution / before-after) monitors.

use crate::model::term::MLine;
use avt::verif::VerifState;
use avt::Vt;

#[derive(Clone, Debug, PartialEq)]
pub struct Snap {
    pub size: (usize, usize),
    pub cursor: (usize, usize, bool),
    pub app: bool,
    pub view: Vec<MLine>,
    pub lines: Vec<MLine>,
    pub text: Vec<String>,
    pub dump: String,
}

impl Snap {
    pub fn of(vt: &Vt) -> Snap {
        let c = vt.cursor();
        Snap {
            size: vt.size(),
            cursor: (c.col, c.row, c.visible),
            app: vt.cursor_key_app_mode(),
            view: vt.view().iter().map(MLine::of).collect(),
            lines: vt.lines().iter().map(MLine::of).collect(),
            text: vt.text(),
            dump: vt.dump(),
        }
    }

    /// first difference in the *visible* observables (size, cursor, cursor-key mode, view)
    pub fn diff_visible(&self, o: &Snap) -> Option<String> {
        if self.size != o.size {
            return Some(format!("size {:?} vs {:?}", self.size, o.size));
        }
        if self.cursor != o.cursor {
            return Some(format!("cursor {:?} vs {:?}", self.cursor, o.cursor));
        }
        if self.app != o.app {
            return Some(format!("cursor-key mode {} vs {}", self.app, o.app));
        }
        diff_lines("view", &self.view, &o.view)
    }

    pub fn diff_all(&self, o: &Snap) -> Option<String> {
        if let Some(d) = self.diff_visible(o) {
            return Some(d);
        }
        if let Some(d) = diff_lines("lines", &self.lines, &o.lines) {
            return Some(d);
        }
        if self.dump != o.dump {
            return Some(format!("dump {:?} vs {:?}", crate::hist::esc(&self.dump), crate::hist::esc(&o.dump)));
        }
        None
    }
}

pub fn diff_lines(what: &str, a: &[MLine], b: &[MLine]) -> Option<String> {
    if a.len() != b.len() {
        return Some(format!("{} count {} vs {}", what, a.len(), b.len()));
    }
    for (i, (x, y)) in a.iter().zip(b).enumerate() {
        if x != y {
            let pen = if x.text() == y.text() && x.wrapped == y.wrapped { " (pens differ)" } else { "" };
            return Some(format!("{} row {}: {} vs {}{}", what, i, x.show(), y.show(), pen));
        }
    }
    None
}

/// hidden state with the volatile parts (dirty rows, trim flag) removed
pub fn hidden(vt: &Vt) -> VerifState {
    let mut s = vt.verif_state();
    s.dirty_lines.clear();
    s.buffer.trim_needed = false;
    s.other_buffer.trim_needed = false;
    // canonical form: the parser's registers are dead outside the collecting states
    if let Some(p) = s.parser.as_mut() {
        use avt::parser::State::*;
        if matches!(p.state, Ground | CsiIgnore | DcsPassthrough | DcsIgnore | OscString | SosPmApcString) {
            p.params.clear();
            p.cur_param = 0;
            p.intermediate = None;
        }
    }
    s
}

pub fn diff_hidden(a: &VerifState, b: &VerifState) -> Option<String> {
    if a == b {
        return None;
    }
    macro_rules! f {
        ($($n:ident),*) => { $( if a.$n != b.$n { return Some(format!("hidden {}: {:?} vs {:?}", stringify!($n), a.$n, b.$n)); } )* };
    }
    f!(cols, rows, alternate_active, scrollback_limit, buffer, other_buffer, pending_wrap, pen, charsets_drawing, active_charset, tabs, insert_mode, origin_mode, auto_wrap_mode, new_line_mode, cursor_keys_app_mode, top_margin, bottom_margin, saved_ctx, other_saved_ctx, parser);
    Some("hidden state differs".into())
}
