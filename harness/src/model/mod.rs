pub mod parser;
pub mod term;
