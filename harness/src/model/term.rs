//! Reference terminal: a grid model written from the property statements (C04-C08, C16-C20).
//! It does not implement reflow: on `resize` it applies the mode-level rules the properties state
//! and *adopts* the real terminal's cells / marks / cursor (which the relational monitors judge).

use super::parser::{MColor, Sg, F};
use avt::{Line, Vt};
use std::collections::BTreeSet;

#[derive(Clone, Copy, PartialEq, Eq, Debug, Default, Hash)]
pub struct MPen {
    pub fg: Option<MColor>,
    pub bg: Option<MColor>,
    /// 0 normal, 1 bold, 2 faint
    pub intensity: u8,
    pub italic: bool,
    pub underline: bool,
    pub blink: bool,
    pub inverse: bool,
    pub strike: bool,
}

impl MPen {
    pub fn of(p: &avt::Pen) -> MPen {
        let c = |c: Option<avt::Color>| {
            c.map(|c| match c {
                avt::Color::Indexed(i) => MColor::Idx(i),
                avt::Color::RGB(c) => MColor::Rgb(c.r, c.g, c.b),
            })
        };
        MPen {
            fg: c(p.foreground()),
            bg: c(p.background()),
            intensity: if p.is_bold() {
                1
            } else if p.is_faint() {
                2
            } else {
                0
            },
            italic: p.is_italic(),
            underline: p.is_underline(),
            blink: p.is_blink(),
            inverse: p.is_inverse(),
            strike: p.is_strikethrough(),
        }
    }
    pub fn is_default(&self) -> bool {
        *self == MPen::default()
    }
    pub fn apply(&mut self, op: &Sg) {
        match op {
            Sg::Reset => *self = MPen::default(),
            Sg::Bold => self.intensity = 1,
            Sg::Faint => self.intensity = 2,
            Sg::Italic => self.italic = true,
            Sg::Underline => self.underline = true,
            Sg::Blink => self.blink = true,
            Sg::Inverse => self.inverse = true,
            Sg::Strike => self.strike = true,
            Sg::NoIntensity => self.intensity = 0,
            Sg::NoItalic => self.italic = false,
            Sg::NoUnderline => self.underline = false,
            Sg::NoBlink => self.blink = false,
            Sg::NoInverse => self.inverse = false,
            Sg::NoStrike => self.strike = false,
            Sg::Fg(c) => self.fg = Some(*c),
            Sg::NoFg => self.fg = None,
            Sg::Bg(c) => self.bg = Some(*c),
            Sg::NoBg => self.bg = None,
        }
    }
    pub fn class(&self) -> u8 {
        (self.fg.is_some() as u8)
            | (self.bg.is_some() as u8) << 1
            | ((self.intensity != 0) as u8) << 2
            | ((self.italic || self.underline || self.blink || self.inverse || self.strike) as u8) << 3
    }
}

#[derive(Clone, Copy, PartialEq, Eq, Debug, Hash)]
pub struct MCell {
    pub ch: char,
    pub pen: MPen,
}

impl MCell {
    pub fn of(c: &avt::Cell) -> MCell {
        MCell { ch: c.char(), pen: MPen::of(c.pen()) }
    }
    pub fn is_blank_default(&self) -> bool {
        self.ch == ' ' && self.pen.is_default()
    }
}

#[derive(Clone, PartialEq, Eq, Debug, Hash)]
pub struct MLine {
    pub cells: Vec<MCell>,
    pub wrapped: bool,
}

impl MLine {
    pub fn blank(cols: usize, pen: MPen) -> MLine {
        MLine { cells: vec![MCell { ch: ' ', pen }; cols], wrapped: false }
    }
    pub fn of(l: &Line) -> MLine {
        MLine { cells: l.cells().iter().map(MCell::of).collect(), wrapped: l.verif_wrapped() }
    }
    pub fn text(&self) -> String {
        self.cells.iter().map(|c| c.ch).collect()
    }
    pub fn show(&self) -> String {
        format!("{:?}{}", self.text(), if self.wrapped { "+wrap" } else { "" })
    }
}

pub fn line_eq(l: &Line, m: &MLine) -> bool {
    l.verif_wrapped() == m.wrapped
        && l.len() == m.cells.len()
        && l.cells().iter().zip(&m.cells).all(|(a, b)| a.char() == b.ch && MPen::of(a.pen()) == b.pen)
}

#[derive(Clone, Copy, PartialEq, Eq, Debug)]
pub struct Saved {
    pub col: usize,
    pub row: usize,
    /// the position as it was saved, never clamped (convention U9: whether a saved position is
    /// clamped when the screen shrinks - as the pinned tree does - or only when it is restored is not
    /// promised; C17 only says the restored position lies inside the screen)
    pub xcol: usize,
    pub xrow: usize,
    pub pen: MPen,
    pub origin: bool,
    pub autowrap: bool,
}

impl Default for Saved {
    fn default() -> Self {
        Saved { col: 0, row: 0, xcol: 0, xrow: 0, pen: MPen::default(), origin: false, autowrap: true }
    }
}

/// DEC special graphics, 0x60..=0x7e (the fixed VT100 line-drawing glyphs)
pub const GFX: [char; 31] = [
    '♦', '▒', '␉', '␌', '␍', '␊', '°', '±', '␤', '␋', '┘', '┐', '┌', '└', '┼', '⎺', '⎻', '─', '⎼', '⎽', '├', '┤', '┴',
    '┬', '│', '≤', '≥', 'π', '≠', '£', '⋅',
];

/// A situation on which the properties are silent (DESIGN §3.3): the model takes the outcome the
/// pinned tree takes and remembers how to switch to the other acceptable outcome.
#[derive(Clone, Copy, PartialEq, Eq, Debug)]
pub enum ConvPoint {
    /// U1: LF/IND/NEL... that does not change the row while wrap is pending (kept / cleared)
    U1,
    /// U2: DECSTBM with an invalid pair (cursor homed / untouched)
    U2 { col: usize, row: usize },
    /// U3: erase-to-right issued in the wrap-pending column erases nothing (mark cleared / kept)
    U3 { row: usize, mark: bool },
    /// U4: EL 1 / ED 1 with the cursor in the last column erases the whole row (mark kept / cleared)
    U4 { row: usize },
    /// U9: restore after the screen shrank and grew again (position clamped at the shrink / only now)
    U9 { col: usize, row: usize },
}

/// What the last executed function did (for evidence keys and minimum-event gates).
#[derive(Clone, Copy, Debug, Default)]
pub struct Effect {
    /// rows of the range that was scrolled (0 = no scroll)
    pub scroll_range: usize,
    pub scroll_n: usize,
    pub scroll_top: usize,
    pub scroll_down: bool,
    /// lines appended to the scrollback
    pub sb_push: usize,
    pub above_push: usize,
    /// an auto-wrap happened
    pub wrapped: bool,
    pub conv: Option<ConvPoint>,
    /// the model adopted real content (resize / return to a stale primary)
    pub adopted: bool,
}

#[derive(Clone, Debug)]
pub struct Model {
    pub cols: usize,
    pub rows: usize,
    pub view: Vec<MLine>,
    /// the parked screen (primary while the alternate is showing and vice versa)
    pub other: Vec<MLine>,
    pub sb: Vec<MLine>,
    /// alternate screen: rows scrolled off the top since the screen was entered / last trimmed.  They
    /// are no scrollback (a trim drops them all) but until then `Vt::lines()` shows them, and nothing
    /// but the trim may touch them.
    pub above: Vec<MLine>,
    pub alt: bool,
    /// a resize happened while the alternate screen was showing: the parked primary will be
    /// re-wrapped by the real terminal when it is shown again and is adopted then
    pub primary_stale: bool,
    pub col: usize,
    pub row: usize,
    pub visible: bool,
    pub pen: MPen,
    pub drawing: [bool; 2],
    pub gl: usize,
    pub tabs: BTreeSet<usize>,
    pub insert: bool,
    pub origin: bool,
    pub autowrap: bool,
    pub newline: bool,
    pub app: bool,
    pub top: usize,
    pub bottom: usize,
    pub saved: Saved,
    pub other_saved: Saved,
    pub eff: Effect,
    /// the model cannot follow (documented unmodellable corner); the history is abandoned
    pub lost: Option<&'static str>,
}

fn dflt(n: u16, d: usize) -> usize {
    if n == 0 {
        d
    } else {
        n as usize
    }
}

impl Model {
    pub fn new(cols: usize, rows: usize) -> Self {
        Model {
            cols,
            rows,
            view: vec![MLine::blank(cols, MPen::default()); rows],
            other: vec![MLine::blank(cols, MPen::default()); rows],
            sb: vec![],
            above: vec![],
            alt: false,
            primary_stale: false,
            col: 0,
            row: 0,
            visible: true,
            pen: MPen::default(),
            drawing: [false; 2],
            gl: 0,
            tabs: (8..cols).step_by(8).collect(),
            insert: false,
            origin: false,
            autowrap: true,
            newline: false,
            app: false,
            top: 0,
            bottom: rows - 1,
            saved: Saved::default(),
            other_saved: Saved::default(),
            eff: Effect::default(),
            lost: None,
        }
    }

    pub fn pending(&self) -> bool {
        self.col == self.cols
    }

    fn set_col(&mut self, c: usize) {
        self.col = c.min(self.cols - 1);
    }

    /// every vertical move leaves the wrap-pending position
    fn set_row(&mut self, r: usize) {
        self.col = self.col.min(self.cols - 1);
        self.row = r;
    }

    fn blank(&self) -> MLine {
        MLine::blank(self.cols, self.pen)
    }

    /// rows [start, end) move up by n; vacated rows are blank in the current pen; rows pushed off a
    /// range that starts at row 0 of the primary screen go to the scrollback, in order
    fn scroll_up(&mut self, start: usize, end: usize, n: usize) {
        let n = n.min(end - start);
        self.eff.scroll_range = end - start;
        self.eff.scroll_n = n;
        self.eff.scroll_top = start;
        self.eff.scroll_down = false;
        // a row whose continuation is no longer below it stops being soft-wrapped
        if end - 1 < self.rows - 1 {
            self.view[end - 1].wrapped = false;
        }
        if start > 0 {
            self.view[start - 1].wrapped = false;
        }
        // (drain + splice rather than n single-row moves: counts of 65535 on 100,000-row screens)
        let off: Vec<MLine> = self.view.drain(start..start + n).collect();
        if start == 0 {
            if !self.alt {
                self.eff.sb_push += n;
                self.sb.extend(off);
            } else {
                self.eff.above_push += n;
                self.above.extend(off);
            }
        }
        let b = self.blank();
        self.view.splice(end - n..end - n, std::iter::repeat(b).take(n));
    }

    fn scroll_down(&mut self, start: usize, end: usize, n: usize) {
        let n = n.min(end - start);
        self.eff.scroll_range = end - start;
        self.eff.scroll_n = n;
        self.eff.scroll_top = start;
        self.eff.scroll_down = true;
        self.view.drain(end - n..end);
        let b = self.blank();
        self.view.splice(start..start, std::iter::repeat(b).take(n));
        if start > 0 {
            self.view[start - 1].wrapped = false;
        }
        self.view[end - 1].wrapped = false;
    }

    fn down_with_scroll(&mut self) {
        if self.row == self.bottom {
            if self.pending() {
                self.eff.conv = Some(ConvPoint::U1);
            }
            self.scroll_up(self.top, self.bottom + 1, 1);
        } else if self.row < self.rows - 1 {
            self.set_row(self.row + 1);
        } else if self.pending() {
            self.eff.conv = Some(ConvPoint::U1);
        }
    }

    fn cursor_down(&mut self, n: usize) {
        let lim = if self.row > self.bottom { self.rows - 1 } else { self.bottom };
        self.set_row((self.row + n).min(lim));
    }

    fn cursor_up(&mut self, n: usize) {
        let lim = if self.row < self.top { 0 } else { self.top };
        self.set_row(self.row.saturating_sub(n).max(lim));
    }

    fn abs_row(&mut self, r: usize) {
        let (t, b) = if self.origin { (self.top, self.bottom) } else { (0, self.rows - 1) };
        self.set_row((t + r).min(b));
    }

    fn home(&mut self) {
        self.col = 0;
        let t = if self.origin { self.top } else { 0 };
        self.set_row(t);
    }

    fn rel_col(&mut self, d: isize) {
        let c = (self.col as isize + d).max(0) as usize;
        self.set_col(c);
    }

    fn print(&mut self, ch: char) {
        let ch = if self.drawing[self.gl] && ('\x60'..='\x7e').contains(&ch) { GFX[ch as usize - 0x60] } else { ch };
        let cell = MCell { ch, pen: self.pen };
        if self.autowrap && self.pending() {
            self.col = 0;
            if self.row == self.bottom {
                self.eff.wrapped = true;
                self.view[self.row].wrapped = true;
                let was_top0 = self.top == 0;
                self.scroll_up(self.top, self.bottom + 1, 1);
                // C04: the row it left is marked soft-wrapped (it now sits one row up, or is the
                // newest scrollback line on a one-row region starting at row 0)
                if self.row > 0 {
                    self.view[self.row - 1].wrapped = true;
                } else if was_top0 {
                    if let Some(l) = if self.alt { self.above.last_mut() } else { self.sb.last_mut() } {
                        l.wrapped = true;
                    }
                }
            } else if self.row < self.rows - 1 {
                self.eff.wrapped = true;
                self.view[self.row].wrapped = true;
                self.row += 1;
            }
        }
        if self.col + 1 >= self.cols {
            let c = self.cols - 1;
            self.view[self.row].cells[c] = cell;
            if self.autowrap {
                self.col = self.cols;
            }
        } else {
            if self.insert {
                let l = &mut self.view[self.row].cells;
                l.pop();
                l.insert(self.col, cell);
            } else {
                self.view[self.row].cells[self.col] = cell;
            }
            self.col += 1;
        }
    }

    fn erase_cells(&mut self, row: usize, a: usize, b: usize) {
        let pen = self.pen;
        for c in &mut self.view[row].cells[a..b] {
            *c = MCell { ch: ' ', pen };
        }
    }

    fn save(&mut self) {
        self.saved = Saved {
            col: self.col.min(self.cols - 1),
            row: self.row,
            xcol: self.col.min(self.cols - 1),
            xrow: self.row,
            pen: self.pen,
            origin: self.origin,
            autowrap: self.autowrap,
        };
    }

    fn restore(&mut self) {
        let s = self.saved;
        self.col = s.col;
        self.row = s.row;
        self.pen = s.pen;
        self.origin = s.origin;
        self.autowrap = s.autowrap;
        let lazy = (s.xcol.min(self.cols - 1), s.xrow.min(self.rows - 1));
        if lazy != (s.col.min(self.cols - 1), s.row.min(self.rows - 1)) {
            self.eff.conv = Some(ConvPoint::U9 { col: lazy.0, row: lazy.1 });
        }
    }

    fn clamp_saved(&mut self) {
        self.saved.col = self.saved.col.min(self.cols - 1);
        self.saved.row = self.saved.row.min(self.rows - 1);
    }

    fn to_alt(&mut self) {
        if !self.alt {
            self.alt = true;
            self.above.clear();
            std::mem::swap(&mut self.saved, &mut self.other_saved);
            std::mem::swap(&mut self.view, &mut self.other);
            // every entry presents a blank alternate screen filled with the current pen
            self.view = vec![self.blank(); self.rows];
            self.clamp_saved();
        }
    }

    /// returns true when the real terminal's primary screen has to be adopted
    fn to_primary(&mut self) -> bool {
        if self.alt {
            self.alt = false;
            self.above.clear();
            std::mem::swap(&mut self.saved, &mut self.other_saved);
            std::mem::swap(&mut self.view, &mut self.other);
            if self.primary_stale {
                self.primary_stale = false;
                return true;
            }
            self.clamp_saved();
        }
        false
    }

    fn next_tab(&mut self, n: usize) {
        let t = self.tabs.iter().filter(|t| **t > self.col).nth(n - 1).copied().unwrap_or(self.cols - 1);
        self.set_col(t);
    }

    fn prev_tab(&mut self, n: usize) {
        let t = self.tabs.iter().rev().filter(|t| **t < self.col).nth(n - 1).copied().unwrap_or(0);
        self.set_col(t);
    }

    fn set_tab(&mut self) {
        // not column 0, not the wrap-pending column
        if self.col > 0 && self.col < self.cols {
            self.tabs.insert(self.col);
        }
    }

    /// Copy the real terminal's active screen (cells, marks, cursor position) into the model.
    pub fn adopt(&mut self, vt: &Vt) {
        let lines = vt.lines();
        let (cols, rows) = vt.size();
        self.cols = cols;
        self.rows = rows;
        let n = lines.len();
        let vstart = n.saturating_sub(rows);
        self.view = lines[vstart..].iter().map(MLine::of).collect();
        if !self.alt {
            self.sb = lines[..vstart].iter().map(MLine::of).collect();
        } else {
            self.above = lines[..vstart].iter().map(MLine::of).collect();
        }
        let c = vt.cursor();
        self.col = c.col;
        self.row = c.row;
        self.eff.adopted = true;
    }

    /// `Vt::resize`: mode-level rules from the properties, content adopted from the real terminal.
    pub fn resize(&mut self, cols: usize, rows: usize, vt: &Vt) {
        self.eff = Effect::default();
        // C18: narrowing discards the stops in the columns that disappear; widening adds the
        // default every-8th-column stops in the newly exposed columns
        if cols < self.cols {
            self.tabs.retain(|t| *t < cols);
        } else if cols > self.cols {
            for t in self.cols..cols {
                if t % 8 == 0 && t > 0 {
                    self.tabs.insert(t);
                }
            }
        }
        // C05/C06: a height change resets the region to the full screen, a width-only change keeps it
        if rows != self.rows {
            self.top = 0;
            self.bottom = rows - 1;
        }
        self.cols = cols;
        self.rows = rows;
        self.clamp_saved();
        if self.alt {
            self.primary_stale = true;
        }
        self.adopt(vt);
    }

    /// Execute one function.  `real` is consulted only to adopt content the model does not compute
    /// (the re-wrapped primary screen when the alternate screen is left after a resize).
    pub fn exec(&mut self, f: &F, real: Option<&Vt>) {
        use F::*;
        self.eff = Effect::default();
        match f {
            Print(c) => self.print(*c),
            Bs => {
                let d = if self.pending() { -2 } else { -1 };
                self.rel_col(d);
            }
            Ht => self.next_tab(1),
            Lf => {
                self.down_with_scroll();
                if self.newline {
                    self.col = 0;
                    self.eff.conv = None;
                }
            }
            Cr => self.col = 0,
            So => self.gl = 1,
            Si => self.gl = 0,
            Nel => {
                self.down_with_scroll();
                self.col = 0;
                self.eff.conv = None;
            }
            Hts => self.set_tab(),
            Ri => {
                // RI moves up exactly one row whatever the origin mode
                if self.row == self.top {
                    self.scroll_down(self.top, self.bottom + 1, 1);
                } else if self.row > 0 {
                    self.set_row(self.row - 1);
                }
            }
            Decsc | Scosc => self.save(),
            Decrc | Scorc => self.restore(),
            Ris => {
                let (c, r) = (self.cols, self.rows);
                *self = Model::new(c, r);
            }
            Decaln => {
                for l in &mut self.view {
                    for c in &mut l.cells {
                        *c = MCell { ch: 'E', pen: MPen::default() };
                    }
                }
            }
            Gzd4(d) => self.drawing[0] = *d,
            G1d4(d) => self.drawing[1] = *d,
            Ich(n) => {
                if self.col < self.cols {
                    let n = dflt(*n, 1).min(self.cols - self.col);
                    let pen = self.pen;
                    let col = self.col;
                    let l = &mut self.view[self.row].cells;
                    for _ in 0..n {
                        l.pop();
                        l.insert(col, MCell { ch: ' ', pen });
                    }
                }
            }
            Cuu(n) => self.cursor_up(dflt(*n, 1)),
            Cud(n) | Vpr(n) => self.cursor_down(dflt(*n, 1)),
            Cuf(n) => self.rel_col(dflt(*n, 1) as isize),
            Cub(n) => {
                let mut d = -(dflt(*n, 1) as isize);
                if self.pending() {
                    d -= 1;
                }
                self.rel_col(d);
            }
            Cnl(n) => {
                self.cursor_down(dflt(*n, 1));
                self.col = 0;
            }
            Cpl(n) => {
                self.cursor_up(dflt(*n, 1));
                self.col = 0;
            }
            Cha(n) => self.set_col(dflt(*n, 1) - 1),
            Cup(r, c) => {
                self.set_col(dflt(*c, 1) - 1);
                self.abs_row(dflt(*r, 1) - 1);
            }
            Vpa(n) => self.abs_row(dflt(*n, 1) - 1),
            Cht(n) => self.next_tab(dflt(*n, 1)),
            Cbt(n) => self.prev_tab(dflt(*n, 1)),
            Ed(0) => {
                let (r, c) = (self.row, self.col.min(self.cols));
                if c == self.cols {
                    self.eff.conv = Some(ConvPoint::U3 { row: r, mark: self.view[r].wrapped });
                }
                self.view[r].wrapped = false;
                self.erase_cells(r, c, self.cols);
                for rr in r + 1..self.rows {
                    self.view[rr] = self.blank();
                }
            }
            Ed(1) => {
                let (r, c) = (self.row, (self.col + 1).min(self.cols));
                if c == self.cols && self.view[r].wrapped {
                    self.eff.conv = Some(ConvPoint::U4 { row: r });
                }
                self.erase_cells(r, 0, c);
                for rr in 0..r {
                    self.view[rr] = self.blank();
                }
            }
            Ed(2) => {
                for rr in 0..self.rows {
                    self.view[rr] = self.blank();
                }
            }
            Ed(_) => {}
            El(0) => {
                let r = self.row;
                if self.col == self.cols {
                    self.eff.conv = Some(ConvPoint::U3 { row: r, mark: self.view[r].wrapped });
                }
                self.erase_cells(r, self.col.min(self.cols), self.cols);
                self.view[r].wrapped = false;
            }
            El(1) => {
                let r = self.row;
                let c = (self.col + 1).min(self.cols);
                if c == self.cols && self.view[r].wrapped {
                    self.eff.conv = Some(ConvPoint::U4 { row: r });
                }
                self.erase_cells(r, 0, c);
            }
            El(_) => {
                let r = self.row;
                self.erase_cells(r, 0, self.cols);
                self.view[r].wrapped = false;
            }
            Ech(n) => {
                let r = self.row;
                let start = self.col.min(self.cols);
                let end = (self.col + dflt(*n, 1)).min(self.cols);
                if start == self.cols {
                    self.eff.conv = Some(ConvPoint::U3 { row: r, mark: self.view[r].wrapped });
                }
                self.erase_cells(r, start, end);
                if end == self.cols {
                    self.view[r].wrapped = false;
                }
            }
            Il(n) => {
                let end = if self.row <= self.bottom { self.bottom + 1 } else { self.rows };
                self.scroll_down(self.row, end, dflt(*n, 1));
            }
            Dl(n) => {
                let end = if self.row <= self.bottom { self.bottom + 1 } else { self.rows };
                self.scroll_up(self.row, end, dflt(*n, 1));
            }
            Dch(n) => {
                // DCH first leaves the wrap-pending column
                if self.pending() {
                    self.col = self.cols - 1;
                }
                let n = dflt(*n, 1).min(self.cols - self.col);
                let pen = self.pen;
                let r = self.row;
                let col = self.col;
                let l = &mut self.view[r].cells;
                for _ in 0..n {
                    l.remove(col);
                    l.push(MCell { ch: ' ', pen });
                }
                self.view[r].wrapped = false;
            }
            Su(n) => self.scroll_up(self.top, self.bottom + 1, dflt(*n, 1)),
            Sd(n) => self.scroll_down(self.top, self.bottom + 1, dflt(*n, 1)),
            Ctc(0) => self.set_tab(),
            Ctc(2) | Tbc(0) => {
                self.tabs.remove(&self.col);
            }
            Ctc(_) | Tbc(_) => self.tabs.clear(),
            Rep(n) => {
                // repeats the character left of the cursor n times as if typed
                if self.col > 0 {
                    let ch = self.view[self.row].cells[self.col - 1].ch;
                    if self.drawing[self.gl] && ('\x60'..='\x7e').contains(&ch) {
                        // "the character left of the cursor" vs "as if typed" (translated again by
                        // the drawing set) disagree here; the properties do not say which
                        self.lost = Some("REP of a drawing-range character while the drawing set is active");
                        return;
                    }
                    for _ in 0..dflt(*n, 1) {
                        self.print(ch);
                    }
                }
            }
            Sm(ms) => {
                for m in ms {
                    if *m == 4 {
                        self.insert = true
                    } else {
                        self.newline = true
                    }
                }
            }
            Rm(ms) => {
                for m in ms {
                    if *m == 4 {
                        self.insert = false
                    } else {
                        self.newline = false
                    }
                }
            }
            Sgr(ops) => {
                for op in ops {
                    self.pen.apply(op);
                }
            }
            Decstbm(t, b) => {
                let t = dflt(*t, 1) - 1;
                let b = dflt(*b, self.rows) - 1;
                if t < b && b < self.rows {
                    self.top = t;
                    self.bottom = b;
                } else {
                    self.eff.conv = Some(ConvPoint::U2 { col: self.col, row: self.row });
                }
                self.home();
            }
            Decstr => {
                self.visible = true;
                self.top = 0;
                self.bottom = self.rows - 1;
                self.insert = false;
                self.origin = false;
                self.pen = MPen::default();
                self.drawing = [false; 2];
                self.gl = 0;
                self.saved = Saved::default();
            }
            Decset(ms) => {
                for m in ms {
                    match m {
                        1 => self.app = true,
                        6 => {
                            self.origin = true;
                            self.home();
                        }
                        7 => self.autowrap = true,
                        25 => self.visible = true,
                        47 | 1047 => self.to_alt(),
                        1048 => self.save(),
                        1049 => {
                            self.save();
                            self.to_alt();
                        }
                        _ => {}
                    }
                }
            }
            Decrst(ms) => {
                let switches = ms.iter().filter(|m| matches!(m, 47 | 1047 | 1049)).count();
                for m in ms {
                    match m {
                        1 => self.app = false,
                        6 => {
                            self.origin = false;
                            self.home();
                        }
                        7 => self.autowrap = false,
                        25 => self.visible = false,
                        47 | 1047 => {
                            if self.to_primary() {
                                self.adopt_primary(real, switches);
                            }
                        }
                        1048 => self.restore(),
                        1049 => {
                            if self.to_primary() {
                                // the saved position is translated through the re-wrap by the real
                                // terminal (judged by the C16 relational monitor): restore the rest
                                self.restore();
                                self.adopt_primary(real, switches);
                            } else {
                                self.restore();
                            }
                        }
                        _ => {}
                    }
                }
            }
            Xtwinops(..) => {}
        }
    }

    fn adopt_primary(&mut self, real: Option<&Vt>, switches: usize) {
        match real {
            Some(vt) if switches == 1 && !vt.verif_state().alternate_active => {
                self.adopt(vt);
                self.clamp_saved();
            }
            _ => self.lost = Some("several screen switches in one sequence after a resize on the alternate screen"),
        }
    }

    /// Switch the model to the other acceptable outcome of a convention point.
    pub fn apply_alt(&mut self, c: ConvPoint) {
        match c {
            ConvPoint::U1 => self.col = self.cols - 1,
            ConvPoint::U2 { col, row } => {
                self.col = col;
                self.row = row;
            }
            ConvPoint::U3 { row, mark } => self.view[row].wrapped = mark,
            ConvPoint::U4 { row } => self.view[row].wrapped = false,
            ConvPoint::U9 { col, row } => {
                self.col = col;
                self.row = row;
            }
        }
    }
}
