//! Reference parser: a literal transcription of Paul Williams' DEC-compatible state table
//! (vt100.net/emu/dec_ansi_parser) with the four deviations property C03 lists:
//!   * ':' is a parameter character inside CSI parameters (sub-parameter separator),
//!   * BEL ends an OSC string,
//!   * C1 controls are the code points U+0080..U+009F (handled by the "anywhere" rows),
//!   * every code point >= U+00A0 is classified like 0x41 (an ordinary final-class printable).
//! Written from the diagram and the property text, not from avt's match arms.

#[derive(Clone, Copy, PartialEq, Eq, Debug, Hash, PartialOrd, Ord)]
pub enum St {
    Ground,
    Escape,
    EscInt,
    CsiEntry,
    CsiParam,
    CsiInt,
    CsiIgnore,
    DcsEntry,
    DcsParam,
    DcsInt,
    DcsPass,
    DcsIgnore,
    Osc,
    Sos,
}

pub const ALL_STATES: [St; 14] = [
    St::Ground,
    St::Escape,
    St::EscInt,
    St::CsiEntry,
    St::CsiParam,
    St::CsiInt,
    St::CsiIgnore,
    St::DcsEntry,
    St::DcsParam,
    St::DcsInt,
    St::DcsPass,
    St::DcsIgnore,
    St::Osc,
    St::Sos,
];

impl St {
    pub fn of(s: avt::parser::State) -> St {
        use avt::parser::State as R;
        match s {
            R::Ground => St::Ground,
            R::Escape => St::Escape,
            R::EscapeIntermediate => St::EscInt,
            R::CsiEntry => St::CsiEntry,
            R::CsiParam => St::CsiParam,
            R::CsiIntermediate => St::CsiInt,
            R::CsiIgnore => St::CsiIgnore,
            R::DcsEntry => St::DcsEntry,
            R::DcsParam => St::DcsParam,
            R::DcsIntermediate => St::DcsInt,
            R::DcsPassthrough => St::DcsPass,
            R::DcsIgnore => St::DcsIgnore,
            R::OscString => St::Osc,
            R::SosPmApcString => St::Sos,
        }
    }
}

#[derive(Clone, Copy, PartialEq, Eq, Debug, Hash)]
pub enum MColor {
    Idx(u8),
    Rgb(u8, u8, u8),
}

/// One decoded SGR operation (the fold of C08 is over these).
#[derive(Clone, Copy, PartialEq, Eq, Debug, Hash)]
pub enum Sg {
    Reset,
    Bold,
    Faint,
    Italic,
    Underline,
    Blink,
    Inverse,
    Strike,
    NoIntensity,
    NoItalic,
    NoUnderline,
    NoBlink,
    NoInverse,
    NoStrike,
    Fg(MColor),
    NoFg,
    Bg(MColor),
    NoBg,
}

#[derive(Clone, PartialEq, Debug)]
pub enum F {
    Print(char),
    Bs,
    Ht,
    Lf,
    Cr,
    So,
    Si,
    Nel,
    Hts,
    Ri,
    Decsc,
    Decrc,
    Ris,
    Decaln,
    Gzd4(bool),
    G1d4(bool),
    Ich(u16),
    Cuu(u16),
    Cud(u16),
    Cuf(u16),
    Cub(u16),
    Cnl(u16),
    Cpl(u16),
    Cha(u16),
    Cup(u16, u16),
    Cht(u16),
    Ed(u16),
    El(u16),
    Il(u16),
    Dl(u16),
    Dch(u16),
    Su(u16),
    Sd(u16),
    Ctc(u16),
    Ech(u16),
    Cbt(u16),
    Rep(u16),
    Vpa(u16),
    Vpr(u16),
    Tbc(u16),
    Sm(Vec<u16>),
    Rm(Vec<u16>),
    Sgr(Vec<Sg>),
    Decstbm(u16, u16),
    Scosc,
    Scorc,
    Decstr,
    Decset(Vec<u16>),
    Decrst(Vec<u16>),
    Xtwinops(u16, u16),
}

impl F {
    pub fn kind(&self) -> &'static str {
        use F::*;
        match self {
            Print(_) => "Print",
            Bs => "Bs",
            Ht => "Ht",
            Lf => "Lf",
            Cr => "Cr",
            So => "So",
            Si => "Si",
            Nel => "Nel",
            Hts => "Hts",
            Ri => "Ri",
            Decsc => "Decsc",
            Decrc => "Decrc",
            Ris => "Ris",
            Decaln => "Decaln",
            Gzd4(_) => "Gzd4",
            G1d4(_) => "G1d4",
            Ich(_) => "Ich",
            Cuu(_) => "Cuu",
            Cud(_) => "Cud",
            Cuf(_) => "Cuf",
            Cub(_) => "Cub",
            Cnl(_) => "Cnl",
            Cpl(_) => "Cpl",
            Cha(_) => "Cha",
            Cup(..) => "Cup",
            Cht(_) => "Cht",
            Ed(_) => "Ed",
            El(_) => "El",
            Il(_) => "Il",
            Dl(_) => "Dl",
            Dch(_) => "Dch",
            Su(_) => "Su",
            Sd(_) => "Sd",
            Ctc(_) => "Ctc",
            Ech(_) => "Ech",
            Cbt(_) => "Cbt",
            Rep(_) => "Rep",
            Vpa(_) => "Vpa",
            Vpr(_) => "Vpr",
            Tbc(_) => "Tbc",
            Sm(_) => "Sm",
            Rm(_) => "Rm",
            Sgr(_) => "Sgr",
            Decstbm(..) => "Decstbm",
            Scosc => "Scosc",
            Scorc => "Scorc",
            Decstr => "Decstr",
            Decset(_) => "Decset",
            Decrst(_) => "Decrst",
            Xtwinops(..) => "Xtwinops",
        }
    }
}

/// Convert the real parser's output into the model's vocabulary (public types only).
pub fn conv(f: &avt::parser::Function) -> F {
    use avt::parser::Function as R;
    use avt::parser::{AnsiMode, CtcOp, DecMode, EdScope, ElScope, SgrOp, TbcScope, XtwinopsOp};
    let col = |c: &avt::Color| match c {
        avt::Color::Indexed(i) => MColor::Idx(*i),
        avt::Color::RGB(c) => MColor::Rgb(c.r, c.g, c.b),
    };
    let dm = |m: &DecMode| match m {
        DecMode::CursorKeys => 1u16,
        DecMode::Origin => 6,
        DecMode::AutoWrap => 7,
        DecMode::TextCursorEnable => 25,
        DecMode::AltScreenBuffer => 1047,
        DecMode::SaveCursor => 1048,
        DecMode::SaveCursorAltScreenBuffer => 1049,
    };
    let am = |m: &AnsiMode| match m {
        AnsiMode::Insert => 4u16,
        AnsiMode::NewLine => 20,
    };
    match f {
        R::Bs => F::Bs,
        R::Cbt(n) => F::Cbt(*n),
        R::Cha(n) => F::Cha(*n),
        R::Cht(n) => F::Cht(*n),
        R::Cnl(n) => F::Cnl(*n),
        R::Cpl(n) => F::Cpl(*n),
        R::Cr => F::Cr,
        R::Ctc(op) => F::Ctc(match op {
            CtcOp::Set => 0,
            CtcOp::ClearCurrentColumn => 2,
            CtcOp::ClearAll => 5,
        }),
        R::Cub(n) => F::Cub(*n),
        R::Cud(n) => F::Cud(*n),
        R::Cuf(n) => F::Cuf(*n),
        R::Cup(r, c) => F::Cup(*r, *c),
        R::Cuu(n) => F::Cuu(*n),
        R::Dch(n) => F::Dch(*n),
        R::Decaln => F::Decaln,
        R::Decrc => F::Decrc,
        R::Decrst(ms) => F::Decrst(ms.iter().map(dm).collect()),
        R::Decsc => F::Decsc,
        R::Decset(ms) => F::Decset(ms.iter().map(dm).collect()),
        R::Decstbm(t, b) => F::Decstbm(*t, *b),
        R::Decstr => F::Decstr,
        R::Dl(n) => F::Dl(*n),
        R::Ech(n) => F::Ech(*n),
        R::Ed(s) => F::Ed(match s {
            EdScope::Below => 0,
            EdScope::Above => 1,
            EdScope::All => 2,
            EdScope::SavedLines => 3,
        }),
        R::El(s) => F::El(match s {
            ElScope::ToRight => 0,
            ElScope::ToLeft => 1,
            ElScope::All => 2,
        }),
        R::G1d4(cs) => F::G1d4(format!("{:?}", cs) == "Drawing"),
        R::Gzd4(cs) => F::Gzd4(format!("{:?}", cs) == "Drawing"),
        R::Ht => F::Ht,
        R::Hts => F::Hts,
        R::Ich(n) => F::Ich(*n),
        R::Il(n) => F::Il(*n),
        R::Lf => F::Lf,
        R::Nel => F::Nel,
        R::Print(c) => F::Print(*c),
        R::Rep(n) => F::Rep(*n),
        R::Ri => F::Ri,
        R::Ris => F::Ris,
        R::Rm(ms) => F::Rm(ms.iter().map(am).collect()),
        R::Scorc => F::Scorc,
        R::Scosc => F::Scosc,
        R::Sd(n) => F::Sd(*n),
        R::Sgr(ops) => F::Sgr(
            ops.iter()
                .map(|o| match o {
                    SgrOp::Reset => Sg::Reset,
                    SgrOp::SetBoldIntensity => Sg::Bold,
                    SgrOp::SetFaintIntensity => Sg::Faint,
                    SgrOp::SetItalic => Sg::Italic,
                    SgrOp::SetUnderline => Sg::Underline,
                    SgrOp::SetBlink => Sg::Blink,
                    SgrOp::SetInverse => Sg::Inverse,
                    SgrOp::SetStrikethrough => Sg::Strike,
                    SgrOp::ResetIntensity => Sg::NoIntensity,
                    SgrOp::ResetItalic => Sg::NoItalic,
                    SgrOp::ResetUnderline => Sg::NoUnderline,
                    SgrOp::ResetBlink => Sg::NoBlink,
                    SgrOp::ResetInverse => Sg::NoInverse,
                    SgrOp::ResetStrikethrough => Sg::NoStrike,
                    SgrOp::SetForegroundColor(c) => Sg::Fg(col(c)),
                    SgrOp::ResetForegroundColor => Sg::NoFg,
                    SgrOp::SetBackgroundColor(c) => Sg::Bg(col(c)),
                    SgrOp::ResetBackgroundColor => Sg::NoBg,
                })
                .collect(),
        ),
        R::Si => F::Si,
        R::Sm(ms) => F::Sm(ms.iter().map(am).collect()),
        R::So => F::So,
        R::Su(n) => F::Su(*n),
        R::Tbc(s) => F::Tbc(match s {
            TbcScope::CurrentColumn => 0,
            TbcScope::All => 3,
        }),
        R::Vpa(n) => F::Vpa(*n),
        R::Vpr(n) => F::Vpr(*n),
        R::Xtwinops(XtwinopsOp::Resize(c, r)) => F::Xtwinops(*c, *r),
    }
}

/// What the table says happens for one input character.
#[derive(Clone, Copy, PartialEq, Eq, Debug, Hash)]
pub enum Act {
    Ignore,
    Print,
    Execute,
    Clear,
    Collect,
    Param,
    EscDispatch,
    CsiDispatch,
    Put,
    OscPut,
    None,
}

pub const DEC_MODES: [u16; 8] = [1, 6, 7, 25, 47, 1047, 1048, 1049];

#[derive(Clone, Debug)]
pub struct PModel {
    pub st: St,
    /// parameters as written: growable, so there is no high-water mark to get wrong
    pub params: Vec<Vec<u32>>,
    /// collected private marker / intermediates, in order
    pub inter: Vec<char>,
    /// the property promises nothing about the numbers (value > 65535, > 32 parameters,
    /// > 6 sub-parameters): only the next state is compared
    pub unspecified: bool,
    /// set by the last dispatch when an SGR colour was malformed (convention U6)
    pub sgr_malformed: bool,
}

impl Default for PModel {
    fn default() -> Self {
        Self::new()
    }
}

/// Classify a scalar the way the table indexes it.
pub fn class_of(ch: char) -> u32 {
    let c = ch as u32;
    if c >= 0xa0 {
        0x41
    } else {
        c
    }
}

fn is_c0_exec(c: u32) -> bool {
    matches!(c, 0x00..=0x17 | 0x19 | 0x1c..=0x1f)
}

/// The state table proper: (state, class) -> (action, next state).  `None` next = stay.
pub fn table(st: St, c: u32) -> (Act, Option<St>) {
    use St::*;
    // "anywhere" transitions
    match c {
        0x18 | 0x1a => return (Act::Execute, Some(Ground)),
        0x1b => return (Act::None, Some(Escape)),
        0x80..=0x8f | 0x91..=0x97 | 0x99 | 0x9a => return (Act::Execute, Some(Ground)),
        0x9c => return (Act::None, Some(Ground)),
        0x90 => return (Act::None, Some(DcsEntry)),
        0x98 | 0x9e | 0x9f => return (Act::None, Some(Sos)),
        0x9b => return (Act::None, Some(CsiEntry)),
        0x9d => return (Act::None, Some(Osc)),
        _ => {}
    }
    let c0 = is_c0_exec(c);
    match st {
        Ground => {
            if c0 {
                (Act::Execute, None)
            } else {
                (Act::Print, None) // 0x20..=0x7f
            }
        }
        Escape => {
            if c0 {
                return (Act::Execute, None);
            }
            match c {
                0x7f => (Act::Ignore, None),
                0x20..=0x2f => (Act::Collect, Some(EscInt)),
                0x5b => (Act::None, Some(CsiEntry)),
                0x5d => (Act::None, Some(Osc)),
                0x50 => (Act::None, Some(DcsEntry)),
                0x58 | 0x5e | 0x5f => (Act::None, Some(Sos)),
                _ => (Act::EscDispatch, Some(Ground)), // 30-4f 51-57 59 5a 5c 60-7e
            }
        }
        EscInt => {
            if c0 {
                return (Act::Execute, None);
            }
            match c {
                0x20..=0x2f => (Act::Collect, None),
                0x7f => (Act::Ignore, None),
                _ => (Act::EscDispatch, Some(Ground)), // 30-7e
            }
        }
        CsiEntry => {
            if c0 {
                return (Act::Execute, None);
            }
            match c {
                0x7f => (Act::Ignore, None),
                0x20..=0x2f => (Act::Collect, Some(CsiInt)),
                0x3a => (Act::None, Some(CsiIgnore)),
                0x30..=0x39 | 0x3b => (Act::Param, Some(CsiParam)),
                0x3c..=0x3f => (Act::Collect, Some(CsiParam)),
                _ => (Act::CsiDispatch, Some(Ground)), // 40-7e
            }
        }
        CsiParam => {
            if c0 {
                return (Act::Execute, None);
            }
            match c {
                0x30..=0x3b => (Act::Param, None), // deviation: ':' separates sub-parameters
                0x7f => (Act::Ignore, None),
                0x3c..=0x3f => (Act::None, Some(CsiIgnore)),
                0x20..=0x2f => (Act::Collect, Some(CsiInt)),
                _ => (Act::CsiDispatch, Some(Ground)),
            }
        }
        CsiInt => {
            if c0 {
                return (Act::Execute, None);
            }
            match c {
                0x20..=0x2f => (Act::Collect, None),
                0x7f => (Act::Ignore, None),
                0x30..=0x3f => (Act::None, Some(CsiIgnore)),
                _ => (Act::CsiDispatch, Some(Ground)),
            }
        }
        CsiIgnore => {
            if c0 {
                return (Act::Execute, None);
            }
            match c {
                0x20..=0x3f | 0x7f => (Act::Ignore, None),
                _ => (Act::None, Some(Ground)),
            }
        }
        DcsEntry => {
            if c0 {
                return (Act::Ignore, None);
            }
            match c {
                0x7f => (Act::Ignore, None),
                0x3a => (Act::None, Some(DcsIgnore)),
                0x20..=0x2f => (Act::Collect, Some(DcsInt)),
                0x30..=0x39 | 0x3b => (Act::Param, Some(DcsParam)),
                0x3c..=0x3f => (Act::Collect, Some(DcsParam)),
                _ => (Act::None, Some(DcsPass)),
            }
        }
        DcsParam => {
            if c0 {
                return (Act::Ignore, None);
            }
            match c {
                0x30..=0x39 | 0x3b => (Act::Param, None),
                0x7f => (Act::Ignore, None),
                0x3a | 0x3c..=0x3f => (Act::None, Some(DcsIgnore)),
                0x20..=0x2f => (Act::Collect, Some(DcsInt)),
                _ => (Act::None, Some(DcsPass)),
            }
        }
        DcsInt => {
            if c0 {
                return (Act::Ignore, None);
            }
            match c {
                0x20..=0x2f => (Act::Collect, None),
                0x7f => (Act::Ignore, None),
                0x30..=0x3f => (Act::None, Some(DcsIgnore)),
                _ => (Act::None, Some(DcsPass)),
            }
        }
        DcsPass => {
            if c == 0x7f {
                (Act::Ignore, None)
            } else {
                (Act::Put, None)
            }
        }
        DcsIgnore | Sos => (Act::Ignore, None),
        Osc => {
            if c == 0x07 {
                (Act::None, Some(Ground)) // deviation: BEL ends OSC
            } else if c0 {
                (Act::Ignore, None)
            } else {
                (Act::OscPut, None)
            }
        }
    }
}

impl PModel {
    pub fn new() -> Self {
        PModel { st: St::Ground, params: vec![vec![0]], inter: Vec::new(), unspecified: false, sgr_malformed: false }
    }

    fn clear(&mut self) {
        self.params = vec![vec![0]];
        self.inter.clear();
        self.unspecified = false;
    }

    fn param(&mut self, c: char) {
        match c {
            ';' => {
                if self.params.len() < 32 {
                    self.params.push(vec![0]);
                } else {
                    self.unspecified = true;
                }
            }
            ':' => {
                let p = self.params.last_mut().unwrap();
                if p.len() < 6 {
                    p.push(0);
                } else {
                    self.unspecified = true;
                }
            }
            d => {
                let v = self.params.last_mut().unwrap().last_mut().unwrap();
                *v = v.saturating_mul(10).saturating_add(d as u32 - 0x30);
                if *v > 65535 {
                    self.unspecified = true;
                }
            }
        }
    }

    fn p(&self, i: usize) -> u16 {
        self.params.get(i).map(|p| p[0] as u16).unwrap_or(0)
    }

    fn firsts(&self) -> Vec<u16> {
        self.params.iter().map(|p| p[0] as u16).collect()
    }

    /// C0 / C1 execution table
    pub fn execute(c: char) -> Option<F> {
        match c as u32 {
            0x08 => Some(F::Bs),
            0x09 => Some(F::Ht),
            0x0a | 0x0b | 0x0c => Some(F::Lf),
            0x0d => Some(F::Cr),
            0x0e => Some(F::So),
            0x0f => Some(F::Si),
            0x84 => Some(F::Lf),  // IND
            0x85 => Some(F::Nel), // NEL
            0x88 => Some(F::Hts), // HTS
            0x8d => Some(F::Ri),  // RI
            _ => None,
        }
    }

    /// The collected character that selects the dispatch row.  With more than one collected
    /// character (marker + intermediate, two intermediates) no implemented sequence exists: such a
    /// sequence is inert.  The pinned tree keys on the LAST collected character only; where that
    /// reading would select an implemented function (e.g. CSI ? ! p) the properties do not say
    /// which of the two is meant and the sequence is not judged (convention U7).
    fn selector(&self) -> Option<char> {
        self.inter.last().copied()
    }

    fn multi(&mut self, last_wins: Option<F>) -> Option<F> {
        if self.inter.len() > 1 {
            if last_wins.is_some() {
                self.unspecified = true;
                return last_wins;
            }
            return None;
        }
        last_wins
    }

    fn esc_dispatch(&mut self, c: char) -> Option<F> {
        let r = self.esc_table(c);
        self.multi(r)
    }

    fn esc_table(&mut self, c: char) -> Option<F> {
        match (self.selector(), c) {
            // a 7-bit ESC Fe acts exactly like its 8-bit C1 counterpart
            (None, c) if ('@'..='_').contains(&c) => {
                let c1 = char::from_u32(c as u32 + 0x40).unwrap();
                // C1 introducers never reach here (the table routes them), the rest executes
                Self::execute(c1)
            }
            (None, '7') => Some(F::Decsc),
            (None, '8') => Some(F::Decrc),
            (None, 'c') => Some(F::Ris),
            (Some('#'), '8') => Some(F::Decaln),
            (Some('('), c) => Some(F::Gzd4(c == '0')),
            (Some(')'), c) => Some(F::G1d4(c == '0')),
            _ => None,
        }
    }

    fn csi_dispatch(&mut self, c: char) -> Option<F> {
        let r = self.csi_table(c);
        self.multi(r)
    }

    fn csi_table(&mut self, c: char) -> Option<F> {
        let p0 = self.p(0);
        let sel = self.selector();
        if c != 'm' && self.params.iter().any(|p| p.len() > 1) {
            // sub-parameters are only given meaning for SGR
            self.unspecified = true;
        }
        match (sel, c) {
            (None, '@') => Some(F::Ich(p0)),
            (None, 'A') => Some(F::Cuu(p0)),
            (None, 'B') => Some(F::Cud(p0)),
            (None, 'C') | (None, 'a') => Some(F::Cuf(p0)),
            (None, 'D') => Some(F::Cub(p0)),
            (None, 'E') => Some(F::Cnl(p0)),
            (None, 'F') => Some(F::Cpl(p0)),
            (None, 'G') | (None, '`') => Some(F::Cha(p0)),
            (None, 'H') | (None, 'f') => Some(F::Cup(p0, self.p(1))),
            (None, 'I') => Some(F::Cht(p0)),
            (None, 'J') => (p0 <= 3).then_some(F::Ed(p0)),
            (None, 'K') => (p0 <= 2).then_some(F::El(p0)),
            (None, 'L') => Some(F::Il(p0)),
            (None, 'M') => Some(F::Dl(p0)),
            (None, 'P') => Some(F::Dch(p0)),
            (None, 'S') => Some(F::Su(p0)),
            (None, 'T') => Some(F::Sd(p0)),
            (None, 'W') => matches!(p0, 0 | 2 | 5).then_some(F::Ctc(p0)),
            (None, 'X') => Some(F::Ech(p0)),
            (None, 'Z') => Some(F::Cbt(p0)),
            (None, 'b') => Some(F::Rep(p0)),
            (None, 'd') => Some(F::Vpa(p0)),
            (None, 'e') => Some(F::Vpr(p0)),
            (None, 'g') => matches!(p0, 0 | 3).then_some(F::Tbc(p0)),
            (None, 'h') => Some(F::Sm(self.firsts().into_iter().filter(|m| *m == 4 || *m == 20).collect())),
            (None, 'l') => Some(F::Rm(self.firsts().into_iter().filter(|m| *m == 4 || *m == 20).collect())),
            (None, 'm') => Some(F::Sgr(self.sgr())),
            (None, 'r') => Some(F::Decstbm(p0, self.p(1))),
            (None, 's') => Some(F::Scosc),
            (None, 't') => (p0 == 8).then_some(F::Xtwinops(self.p(2), self.p(1))),
            (None, 'u') => Some(F::Scorc),
            (Some('!'), 'p') => Some(F::Decstr),
            (Some('?'), 'h') => Some(F::Decset(self.dec_modes())),
            (Some('?'), 'l') => Some(F::Decrst(self.dec_modes())),
            _ => None,
        }
    }

    fn dec_modes(&self) -> Vec<u16> {
        self.firsts()
            .into_iter()
            .filter(|m| DEC_MODES.contains(m))
            .map(|m| if m == 47 { 1047 } else { m })
            .collect()
    }

    /// SGR decoding per C08.  "Unknown parameters are skipped without disturbing their
    /// neighbours": a 38 / 48 that is not followed by a well-formed colour continuation is such an
    /// unknown parameter - it alone is skipped and the following parameters are read normally.
    /// Only three situations stay unjudged (convention U6, `sgr_malformed`): a ';'-form colour
    /// that is cut short by the END of the parameter list after a valid selector (`38;5`,
    /// `38;2;r;g`), a colour component above 255, and a ';'-form component that itself carries
    /// sub-parameters.
    fn sgr(&mut self) -> Vec<Sg> {
        let ps: Vec<Vec<u32>> = self.params.clone();
        let mut out = Vec::new();
        let mut i = 0;
        let mut bad = false;
        let mut byte = |v: u32, bad: &mut bool| -> u8 {
            if v > 255 {
                *bad = true;
            }
            v as u8
        };
        while i < ps.len() {
            let p = &ps[i];
            i += 1;
            if p.len() > 1 {
                // ':' form: only the exact 38 / 48 colour shapes are defined; anything else with
                // sub-parameters (4:3, 38:5, 38:2:1:2, 38:5:1:2 ...) is an unknown parameter
                if p[0] == 38 || p[0] == 48 {
                    let fg = p[0] == 38;
                    let c = match p.as_slice() {
                        [_, 5, n] => Some(MColor::Idx(byte(*n, &mut bad))),
                        [_, 2, r, g, b] | [_, 2, _, r, g, b] => Some(MColor::Rgb(byte(*r, &mut bad), byte(*g, &mut bad), byte(*b, &mut bad))),
                        _ => None,
                    };
                    if let Some(c) = c {
                        out.push(if fg { Sg::Fg(c) } else { Sg::Bg(c) });
                    }
                }
                continue;
            }
            let v = p[0];
            match v {
                0 => out.push(Sg::Reset),
                1 => out.push(Sg::Bold),
                2 => out.push(Sg::Faint),
                3 => out.push(Sg::Italic),
                4 => out.push(Sg::Underline),
                5 => out.push(Sg::Blink),
                7 => out.push(Sg::Inverse),
                9 => out.push(Sg::Strike),
                21 | 22 => out.push(Sg::NoIntensity),
                23 => out.push(Sg::NoItalic),
                24 => out.push(Sg::NoUnderline),
                25 => out.push(Sg::NoBlink),
                27 => out.push(Sg::NoInverse),
                29 => out.push(Sg::NoStrike),
                30..=37 => out.push(Sg::Fg(MColor::Idx((v - 30) as u8))),
                39 => out.push(Sg::NoFg),
                40..=47 => out.push(Sg::Bg(MColor::Idx((v - 40) as u8))),
                49 => out.push(Sg::NoBg),
                90..=97 => out.push(Sg::Fg(MColor::Idx((v - 90 + 8) as u8))),
                100..=107 => out.push(Sg::Bg(MColor::Idx((v - 100 + 8) as u8))),
                38 | 48 => {
                    // ';' form: the selector must be a plain 5 or 2
                    let selector = ps.get(i).filter(|q| q.len() == 1).map(|q| q[0]);
                    let need = match selector {
                        Some(5) => 1,
                        Some(2) => 3,
                        _ => 0, // not a colour continuation: the 38 / 48 alone is skipped
                    };
                    if need > 0 {
                        if i + need >= ps.len() {
                            // cut short by the end of the list: consumed or re-read? not pinned down
                            bad = true;
                            i = ps.len();
                        } else {
                            let comps: Vec<&Vec<u32>> = (1..=need).map(|k| &ps[i + k]).collect();
                            if comps.iter().any(|q| q.len() > 1) {
                                bad = true;
                            }
                            let c = if need == 1 {
                                MColor::Idx(byte(comps[0][0], &mut bad))
                            } else {
                                MColor::Rgb(byte(comps[0][0], &mut bad), byte(comps[1][0], &mut bad), byte(comps[2][0], &mut bad))
                            };
                            out.push(if v == 38 { Sg::Fg(c) } else { Sg::Bg(c) });
                            i += 1 + need;
                        }
                    }
                }
                _ => {} // unknown: skipped without disturbing its neighbours
            }
        }
        self.sgr_malformed = bad;
        out
    }

    /// Feed one character; returns the function to execute, if any.
    pub fn feed(&mut self, ch: char) -> Option<F> {
        self.feed_act(ch).0
    }

    /// Same, also reporting the table action taken.
    pub fn feed_act(&mut self, ch: char) -> (Option<F>, Act) {
        let c = class_of(ch);
        let (act, next) = table(self.st, c);
        self.sgr_malformed = false;
        let mut out = None;
        match act {
            Act::Print => out = Some(F::Print(ch)),
            Act::Execute => out = Self::execute(ch),
            Act::Collect => self.inter.push(ch),
            Act::Param => self.param(ch),
            Act::EscDispatch => out = self.esc_dispatch(ch),
            Act::CsiDispatch => out = self.csi_dispatch(ch),
            Act::Ignore | Act::Put | Act::OscPut | Act::None | Act::Clear => {}
        }
        if let Some(n) = next {
            // entry actions: escape, csi entry and dcs entry clear the collected data
            if matches!(n, St::Escape | St::CsiEntry | St::DcsEntry) {
                self.clear();
            }
            self.st = n;
        }
        (out, act)
    }
}
