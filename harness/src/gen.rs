//! Workload generators (DESIGN §4).  Everything is drawn from one PRNG; parameter values are
//! edge-seeking relative to the current geometry.

use crate::hist::{Call, History};
use crate::rng::Rng;

pub const T_TEXT: usize = 0;
pub const T_TEXTX: usize = 1;
pub const T_C0: usize = 2;
pub const T_CUR: usize = 3;
pub const T_LINES: usize = 4;
pub const T_EDIT: usize = 5;
pub const T_STBM: usize = 6;
pub const T_MODE: usize = 7;
pub const T_ALT: usize = 8;
pub const T_SAVE: usize = 9;
pub const T_CHARSET: usize = 10;
pub const T_SGR: usize = 11;
pub const T_TABS: usize = 12;
pub const T_STR: usize = 13;
pub const T_UNIMPL: usize = 14;
pub const T_MALFORMED: usize = 15;
pub const T_RESET: usize = 16;
pub const T_RIS: usize = 17;
pub const T_SOUP: usize = 18;
pub const NTOK: usize = 19;

#[derive(Clone, Debug)]
pub struct Profile {
    pub w: [u32; NTOK],
    /// percent of calls that are resizes
    pub resize_pct: usize,
    pub max_cols: usize,
    pub max_rows: usize,
    pub calls: (usize, usize),
    pub tokens: (usize, usize),
    /// percent of numeric parameters drawn from {65536, 99999999999, ...}
    pub huge_pct: usize,
    pub limits: &'static [Option<usize>],
    /// percent of histories that start on a "ladder" size around powers of two (31..129 columns /
    /// rows): implementations with word-sized bit sets or chunked rows change behaviour there
    pub big_pct: usize,
}

pub const LADDER: &[usize] = &[31, 32, 33, 63, 64, 65, 127, 128, 129];

pub const LIMITS_ALL: &[Option<usize>] =
    &[None, None, None, Some(0), Some(1), Some(2), Some(9), Some(10), Some(11), Some(25), Some(100), Some(1000)];
pub const LIMITS_HALF_NONE: &[Option<usize>] = &[None, None, None, None, None, None, Some(0), Some(1), Some(2), Some(10), Some(100), Some(1000)];
pub const LIMITS_NONE: &[Option<usize>] = &[None];
pub const LIMITS_FINITE: &[Option<usize>] = &[Some(0), Some(1), Some(2), Some(9), Some(10), Some(11), Some(25), Some(100), Some(1000)];

impl Profile {
    /// the general mix used by most monitors
    pub fn general() -> Profile {
        let mut w = [0u32; NTOK];
        w[T_TEXT] = 26;
        w[T_TEXTX] = 6;
        w[T_C0] = 12;
        w[T_CUR] = 12;
        w[T_LINES] = 8;
        w[T_EDIT] = 8;
        w[T_STBM] = 4;
        w[T_MODE] = 5;
        w[T_ALT] = 3;
        w[T_SAVE] = 4;
        w[T_CHARSET] = 3;
        w[T_SGR] = 6;
        w[T_TABS] = 4;
        w[T_STR] = 2;
        w[T_UNIMPL] = 2;
        w[T_MALFORMED] = 1;
        w[T_RESET] = 1;
        w[T_RIS] = 0;
        w[T_SOUP] = 0;
        Profile { w, resize_pct: 6, max_cols: 12, max_rows: 7, calls: (1, 8), tokens: (1, 7), huge_pct: 0, limits: LIMITS_ALL, big_pct: 6 }
    }
    pub fn with(mut self, t: usize, w: u32) -> Profile {
        self.w[t] = w;
        self
    }
    pub fn boost(mut self, ts: &[usize], factor: u32) -> Profile {
        for t in ts {
            self.w[*t] = self.w[*t].max(1) * factor;
        }
        self
    }
    pub fn size(mut self, c: usize, r: usize) -> Profile {
        self.max_cols = c;
        self.max_rows = r;
        self
    }
    pub fn resizes(mut self, pct: usize) -> Profile {
        self.resize_pct = pct;
        self
    }
    pub fn limits(mut self, l: &'static [Option<usize>]) -> Profile {
        self.limits = l;
        self
    }
    pub fn length(mut self, calls: (usize, usize), tokens: (usize, usize)) -> Profile {
        self.calls = calls;
        self.tokens = tokens;
        self
    }
    pub fn big(mut self, pct: usize) -> Profile {
        self.big_pct = pct;
        self
    }
    pub fn huge(mut self, pct: usize) -> Profile {
        self.huge_pct = pct;
        self
    }
}

pub struct Gen<'a> {
    pub r: &'a mut Rng,
    pub cols: usize,
    pub rows: usize,
    pub huge_pct: usize,
}

const ASCII_POOL: &[u8] = b"abcdefghijklmnopqrstuvwxyzABCDEFGHIJKLMNOPQRSTUVWXYZ0123456789 .,;:-_+*/=()[]{}<>!?#$%&'\"@^|~\\`";

impl<'a> Gen<'a> {
    pub fn new(r: &'a mut Rng, cols: usize, rows: usize) -> Self {
        Gen { r, cols, rows, huge_pct: 0 }
    }

    pub fn csi(&mut self) -> &'static str {
        if self.r.chance(1, 5) {
            "\u{9b}"
        } else {
            "\x1b["
        }
    }

    /// a numeric parameter as text (possibly empty), edge-seeking relative to `edge`
    pub fn val(&mut self, edge: usize) -> String {
        if self.huge_pct > 0 && self.r.chance(self.huge_pct, 100) {
            if self.r.chance(1, 2) {
                // beyond 32 / 40 / 64 bits but small modulo 2^16: whatever an implementation makes of
                // such a number, it must make the same of it however the digits arrive
                let base = *self.r.pick(&[1u128 << 32, 1 << 33, 1 << 40, 1 << 48, 1 << 64, 3 << 63]);
                return (base + self.r.below(edge + 3) as u128).to_string();
            }
            return (*self.r.pick(&["65536", "65537", "99999999999", "4294967296", "131071", "18446744073709551616"])).to_string();
        }
        if self.r.chance(1, 40) {
            // the 16-bit boundary from below ("values up to 65535")
            return (*self.r.pick(&["65534", "65530", "65533", "65529", "6553", "6554", "65500", "60000", "32768", "32767", "9999", "10000"])).to_string();
        }
        match self.r.weighted(&[3, 2, 5, 3, 6, 3, 3, 3, 2, 1, 1, 2]) {
            0 => String::new(),
            1 => "0".into(),
            2 => "1".into(),
            3 => "2".into(),
            4 => self.r.below(edge + 3).to_string(),
            5 => edge.saturating_sub(1).to_string(),
            6 => edge.to_string(),
            7 => (edge + 1).to_string(),
            8 => self.r.pick(&[self.cols, self.rows, self.cols * 2, self.rows * 2]).to_string(),
            9 => "255".into(),
            10 => "256".into(),
            _ => "65535".into(),
        }
    }

    pub fn text(&mut self) -> String {
        let n = match self.r.below(6) {
            0 => 1,
            1 => self.cols.saturating_sub(1).max(1),
            2 => self.cols,
            3 => self.cols + 1,
            4 => self.r.range(1, self.cols * 2 + 3),
            _ => self.r.range(1, 5),
        };
        (0..n).map(|_| ASCII_POOL[self.r.below(ASCII_POOL.len())] as char).collect()
    }

    pub fn special_char(&mut self) -> char {
        match self.r.below(9) {
            0 => '\u{7f}',
            1 => char::from_u32(0xa0 + self.r.below(0x60) as u32).unwrap(),
            2 => char::from_u32(0x4e00 + self.r.below(0x5000) as u32).unwrap(),
            3 | 4 => char::from_u32(0x60 + self.r.below(0x1f) as u32).unwrap(),
            5 => *self.r.pick(&['\u{300}', '\u{200b}', '\u{fe0f}', '\u{1f600}', '\u{3000}', '\u{ff21}', '\u{10ffff}', '\u{e000}']),
            6 => char::from_u32(0x100 + self.r.below(0x2f00) as u32).unwrap_or('x'),
            7 => ' ',
            _ => char::from_u32(0x2500 + self.r.below(0x80) as u32).unwrap(),
        }
    }

    pub fn textx(&mut self) -> String {
        let n = self.r.range(1, self.cols + 2);
        let mut s = String::new();
        let mut prev = self.special_char();
        for _ in 0..n {
            // runs of the same special character (replacement characters, combining marks ...)
            if !self.r.chance(1, 4) {
                prev = if self.r.chance(1, 12) { '\u{fffd}' } else { self.special_char() };
            }
            s.push(prev);
        }
        s
    }

    pub fn c0(&mut self) -> String {
        (*self.r.pick(&["\r", "\n", "\r\n", "\r\n", "\x08", "\t", "\x0b", "\x0c", "\x0e", "\x0f", "\n", "\x08"])).to_string()
    }

    pub fn cursor_cmd(&mut self) -> String {
        let csi = self.csi();
        if self.r.chance(1, 4) {
            let (r, c) = (self.val(self.rows), self.val(self.cols));
            let f = *self.r.pick(&['H', 'f']);
            return match self.r.below(4) {
                0 => format!("{}{}", csi, f),
                1 => format!("{}{}{}", csi, r, f),
                _ => format!("{}{};{}{}", csi, r, c, f),
            };
        }
        let f = *self.r.pick(&['A', 'B', 'C', 'D', 'E', 'F', 'G', '`', 'a', 'd', 'e', 'I', 'Z']);
        let edge = if matches!(f, 'A' | 'B' | 'E' | 'F' | 'd' | 'e') { self.rows } else { self.cols };
        let v = self.val(edge);
        format!("{}{}{}", csi, v, f)
    }

    pub fn lines_cmd(&mut self) -> String {
        match self.r.below(10) {
            0 => "\x1bM".into(),
            1 => "\x1bD".into(),
            2 => "\x1bE".into(),
            3 => (*self.r.pick(&["\u{84}", "\u{85}", "\u{8d}"])).to_string(),
            _ => {
                let csi = self.csi();
                let f = *self.r.pick(&['L', 'M', 'S', 'T']);
                let v = self.val(self.rows);
                format!("{}{}{}", csi, v, f)
            }
        }
    }

    pub fn edit_cmd(&mut self) -> String {
        let csi = self.csi();
        match self.r.below(8) {
            0 | 1 => format!("{}{}J", csi, self.r.pick(&["", "0", "1", "2", "3", "4"])),
            2 | 3 => format!("{}{}K", csi, self.r.pick(&["", "0", "1", "2", "3"])),
            _ => {
                let f = *self.r.pick(&['X', '@', 'P', 'b']);
                let v = self.val(self.cols);
                format!("{}{}{}", csi, v, f)
            }
        }
    }

    pub fn stbm(&mut self) -> String {
        let csi = self.csi();
        let rows = self.rows;
        match self.r.below(8) {
            0 => format!("{}r", csi),
            1 | 2 | 3 if rows >= 2 => {
                let t = self.r.range(1, rows - 1);
                let b = self.r.range(t + 1, rows);
                format!("{}{};{}r", csi, t, b)
            }
            4 => {
                let t = self.val(rows);
                format!("{}{}r", csi, t)
            }
            5 => {
                let b = self.val(rows);
                format!("{};{}r", csi, b)
            }
            _ => {
                let (t, b) = (self.val(rows), self.val(rows));
                format!("{}{};{}r", csi, t, b)
            }
        }
    }

    pub fn mode_cmd(&mut self) -> String {
        let csi = self.csi();
        let hl = *self.r.pick(&['h', 'l']);
        if self.r.chance(1, 3) {
            let ms = ["4", "20", "4;20", "20;4", "2", "12", "4;3", ""];
            format!("{}{}{}", csi, self.r.pick(&ms), hl)
        } else {
            let pool = ["1", "6", "7", "25", "7", "6", "2004", "12", "1000", "3"];
            let n = self.r.range(1, 3);
            let ms: Vec<&str> = (0..n).map(|_| *self.r.pick(&pool)).collect();
            format!("{}?{}{}", csi, ms.join(";"), hl)
        }
    }

    pub fn alt_cmd(&mut self) -> String {
        let csi = self.csi();
        let hl = if self.r.chance(1, 2) { 'h' } else { 'l' };
        if self.r.chance(1, 5) {
            // several modes in one sequence: they take effect in the order written
            let pool = ["47", "1047", "1049", "1048", "1048", "6", "7", "25", "1"];
            let n = self.r.range(2, 3);
            let ms: Vec<&str> = (0..n).map(|_| *self.r.pick(&pool)).collect();
            return format!("{}?{}{}", csi, ms.join(";"), hl);
        }
        let m = *self.r.pick(&["47", "1047", "1049"]);
        format!("{}?{}{}", csi, m, hl)
    }

    pub fn save_cmd(&mut self) -> String {
        (*self.r.pick(&["\x1b7", "\x1b8", "\x1b[s", "\x1b[u", "\x1b[?1048h", "\x1b[?1048l", "\u{9b}s", "\u{9b}u", "\x1b7", "\x1b8"])).to_string()
    }

    pub fn charset_cmd(&mut self) -> String {
        (*self.r.pick(&["\x1b(0", "\x1b(B", "\x1b)0", "\x1b)B", "\x0e", "\x0f", "\x1b(A", "\x1b)A", "\x1b(0", "\x0e"])).to_string()
    }

    fn colour(&mut self, base: u32) -> String {
        let idx = match self.r.below(4) {
            0 => self.r.below(8),
            1 => self.r.range(8, 15),
            2 => self.r.range(16, 255),
            _ => *self.r.pick(&[0, 7, 8, 15, 16, 231, 232, 255]),
        };
        let rgb = |r: &mut Rng| -> (usize, usize, usize) {
            let mut v = || *r.pick(&[0usize, 1, 127, 128, 254, 255, 17, 99, 200]);
            (v(), v(), v())
        };
        match self.r.below(8) {
            0 => format!("{}", base + self.r.below(8) as u32),
            1 => format!("{}", base + 60 + self.r.below(8) as u32),
            2 => format!("{};5;{}", base + 8, idx),
            3 => format!("{}:5:{}", base + 8, idx),
            4 => {
                let (r, g, b) = rgb(self.r);
                format!("{};2;{};{};{}", base + 8, r, g, b)
            }
            5 => {
                let (r, g, b) = rgb(self.r);
                format!("{}:2:{}:{}:{}", base + 8, r, g, b)
            }
            6 => {
                let (r, g, b) = rgb(self.r);
                format!("{}:2::{}:{}:{}", base + 8, r, g, b)
            }
            _ => format!("{}", base + 9),
        }
    }

    /// one SGR parameter (possibly a multi-parameter colour form)
    pub fn sgr_param(&mut self, malformed_ok: bool) -> String {
        match self.r.below(12) {
            0 => String::new(),
            1 => "0".into(),
            2 | 3 => (*self.r.pick(&["1", "2", "3", "4", "5", "7", "9"])).to_string(),
            4 | 5 => (*self.r.pick(&["21", "22", "23", "24", "25", "27", "29"])).to_string(),
            6 | 7 => self.colour(30),
            8 | 9 => self.colour(40),
            10 => (*self.r.pick(&["6", "8", "10", "11", "20", "26", "28", "50", "51", "58", "59", "73", "89", "98", "99", "108", "255", "4:3", "1:2", "65535"])).to_string(),
            _ => {
                if malformed_ok {
                    (*self.r.pick(&["38;5", "38;2;1;2", "38", "48", "38:5", "38:2:1:2", "48;7", "38;5;300", "38:2:1:2:3:4:5:6", "48;2;1;2;3000", "38;5:1;7", "38;2:9;1;3;4", "48;5:2;4", "38;7;1", "38;4;9", "48;1:2;3", "38;5:0;2;1", "48;2:0;4;5;6;7"])).to_string()
                } else {
                    "1".into()
                }
            }
        }
    }

    pub fn sgr(&mut self) -> String {
        let csi = self.csi();
        let n = self.r.range(1, 4);
        let mut ps: Vec<String> = Vec::new();
        for _ in 0..n {
            let mal = self.r.chance(1, 9);
            ps.push(self.sgr_param(mal));
        }
        format!("{}{}m", csi, ps.join(";"))
    }

    pub fn tabs_cmd(&mut self) -> String {
        let csi = self.csi();
        match self.r.below(12) {
            0 | 1 => "\x1bH".into(),
            2 => "\u{88}".into(),
            3 => format!("{}W", csi),
            4 => format!("{}{}W", csi, self.r.pick(&["0", "2", "5", "1", "3"])),
            5 => format!("{}{}g", csi, self.r.pick(&["", "0", "3", "1", "2"])),
            6 | 7 => "\t".into(),
            8 => {
                let v = self.val(self.cols / 8 + 1);
                format!("{}{}I", csi, v)
            }
            9 => {
                let v = self.val(self.cols / 8 + 1);
                format!("{}{}Z", csi, v)
            }
            _ => {
                let v = self.val(self.cols);
                format!("{}{}G", csi, v)
            }
        }
    }

    /// payload for a control string: printable ASCII, non-ASCII text, C0 other than CAN/SUB/ESC
    pub fn payload(&mut self, osc: bool, maxlen: usize) -> String {
        let n = match self.r.below(5) {
            0 => 0,
            1 => self.r.range(1, 4),
            2 => self.r.range(1, 40.min(maxlen).max(1)),
            3 => self.r.range(1, maxlen.max(1)),
            _ => self.r.range(1, 12),
        };
        let mut s = String::new();
        for _ in 0..n {
            let c = match self.r.below(10) {
                0..=5 => char::from_u32(0x20 + self.r.below(0x60) as u32).unwrap(),
                6 | 7 => self.special_char(),
                _ => loop {
                    let c = self.r.below(0x20) as u32;
                    if c == 0x18 || c == 0x1a || c == 0x1b || (osc && c == 0x07) {
                        continue;
                    }
                    break char::from_u32(c).unwrap();
                },
            };
            s.push(c);
        }
        s
    }

    pub fn control_string(&mut self, maxlen: usize) -> String {
        let kind = self.r.below(5);
        let eight = self.r.chance(1, 3);
        let intro = match (kind, eight) {
            (0, false) => "\x1b]",
            (0, true) => "\u{9d}",
            (1, false) => "\x1bP",
            (1, true) => "\u{90}",
            (2, false) => "\x1bX",
            (2, true) => "\u{98}",
            (3, false) => "\x1b^",
            (3, true) => "\u{9e}",
            (4, false) => "\x1b_",
            _ => "\u{9f}",
        };
        let mut s = intro.to_string();
        if kind == 1 {
            // DCS header: parameters / intermediates / ':' then a final
            s.push_str(*self.r.pick(&["", "1;2", "?1", "1$", ":", "1:2", "+", "0;1|", ">", "1;2;3 "]));
            if self.r.chance(2, 3) {
                s.push(*self.r.pick(&['q', 'p', '|', '{', '@', '~']));
            }
        }
        let pl = self.payload(kind == 0, maxlen);
        s.push_str(&pl);
        let term = match (kind, self.r.below(3)) {
            (0, 0) => "\x07",
            (_, 1) => "\u{9c}",
            _ => "\x1b\\",
        };
        s.push_str(term);
        s
    }

    /// a sequence the dispatch tables do not implement (must be inert)
    pub fn unimplemented(&mut self) -> String {
        let csi = self.csi();
        match self.r.below(11) {
            9 => {
                // private marker followed by an intermediate, or two intermediates: no such sequence
                // is implemented
                let mk = *self.r.pick(&["?", "?", "<", ">", ""]);
                let i1 = char::from_u32(0x20 + self.r.below(0x10) as u32).unwrap();
                let i2 = if mk.is_empty() || self.r.chance(1, 3) { char::from_u32(0x20 + self.r.below(0x10) as u32).unwrap().to_string() } else { String::new() };
                let f = *self.r.pick(&['h', 'l', 'p', 'm', 'H', 'J', 'r', 'q', 'A']);
                let v = *self.r.pick(&["", "25", "6", "7", "1049", "1;2"]);
                format!("{}{}{}{}{}{}", csi, mk, v, i1, i2, f)
            }
            10 => {
                let i1 = *self.r.pick(&['#', '(', ')', ' ', '%']);
                let i2 = char::from_u32(0x20 + self.r.below(0x10) as u32).unwrap();
                let f = *self.r.pick(&['8', '0', 'B', 'c', '7']);
                format!("\x1b{}{}{}", i1, i2, f)
            }
            0 => {
                // CSI final outside the table
                let f = *self.r.pick(&['N', 'O', 'Q', 'R', 'U', 'V', 'Y', '[', '\\', ']', '^', '_', 'c', 'i', 'j', 'k', 'n', 'o', 'p', 'q', 'v', 'w', 'x', 'y', 'z', '{', '|', '}', '~']);
                let v = self.val(self.cols);
                format!("{}{}{}", csi, v, f)
            }
            1 => {
                let mk = *self.r.pick(&['<', '=', '>']);
                let f = char::from_u32(0x40 + self.r.below(0x3f) as u32).unwrap();
                let v = self.val(self.cols);
                format!("{}{}{}{}", csi, mk, v, f)
            }
            2 => {
                // one intermediate (not the DECSTR spelling)
                loop {
                    let i = char::from_u32(0x20 + self.r.below(0x10) as u32).unwrap();
                    let f = char::from_u32(0x40 + self.r.below(0x3f) as u32).unwrap();
                    if i == '!' && f == 'p' {
                        continue;
                    }
                    let v = self.val(self.cols);
                    break format!("{}{}{}{}", csi, v, i, f);
                }
            }
            3 => {
                // '?' with a final that is not h / l
                loop {
                    let f = char::from_u32(0x40 + self.r.below(0x3f) as u32).unwrap();
                    if f == 'h' || f == 'l' {
                        continue;
                    }
                    let v = self.val(self.cols);
                    break format!("{}?{}{}", csi, v, f);
                }
            }
            4 => {
                // ESC final outside the table
                let f = *self.r.pick(&['1', '2', '3', '4', '5', '6', '9', ':', ';', '<', '=', '>', '?', '@', 'A', 'B', 'C', 'F', 'G', 'I', 'J', 'K', 'L', 'N', 'O', 'Q', 'R', 'S', 'T', 'U', 'V', 'W', 'Y', 'Z', '\\', '`', 'a', 'b', 'd', 'g', 'n', 'o', '|', '}', '~']);
                format!("\x1b{}", f)
            }
            5 => {
                // ESC intermediate other than ( ) and '#8'
                loop {
                    let i = char::from_u32(0x20 + self.r.below(0x10) as u32).unwrap();
                    let f = char::from_u32(0x30 + self.r.below(0x4f) as u32).unwrap();
                    if i == '(' || i == ')' || (i == '#' && f == '8') {
                        continue;
                    }
                    break format!("\x1b{}{}", i, f);
                }
            }
            6 => {
                // unassigned C0
                let c = *self.r.pick(&[0x00u32, 0x01, 0x02, 0x03, 0x04, 0x05, 0x06, 0x07, 0x10, 0x11, 0x12, 0x13, 0x14, 0x15, 0x16, 0x17, 0x19, 0x1c, 0x1d, 0x1e, 0x1f]);
                char::from_u32(c).unwrap().to_string()
            }
            7 => {
                // unassigned C1 (not an introducer, not IND NEL HTS RI)
                let c = *self.r.pick(&[0x80u32, 0x81, 0x82, 0x83, 0x86, 0x87, 0x89, 0x8a, 0x8b, 0x8c, 0x8e, 0x8f, 0x91, 0x92, 0x93, 0x94, 0x95, 0x96, 0x97, 0x99, 0x9a, 0x9c]);
                char::from_u32(c).unwrap().to_string()
            }
            _ => {
                // implemented finals with selector values outside their table
                (*self.r.pick(&["\x1b[4J", "\x1b[3K", "\x1b[1W", "\x1b[1g", "\x1b[7t", "\x1b[8;5;5t", "\x1b[?2004h", "\x1b[?12l", "\x1b[5n", "\x1b[6n", "\x1b[c", "\x1b[>c", "\x1b[?1$p"])).to_string()
            }
        }
    }

    pub fn malformed(&mut self) -> String {
        let csi = self.csi();
        match self.r.below(10) {
            0 => csi.to_string(),                               // truncated introducer
            1 => format!("{}{}", csi, self.r.pick(&["1;", "12", "?", "?1", "1;2;", "38:2:", "1 ", ">"])),
            2 => "\x1b".into(),
            3 => format!("{}{}m", csi, vec!["1"; self.r.range(30, 40)].join(";")), // around / beyond 32 parameters
            4 => format!("{}38:2{}m", csi, ":1".repeat(self.r.range(3, 8))),        // around / beyond 6 sub-parameters
            5 => format!("{}{}\x18", csi, self.r.pick(&["1;2", "?6", "5 "])),       // aborted by CAN
            6 => format!("{}{}\x1a", csi, self.r.pick(&["1;2", "?6", "5 "])),       // aborted by SUB
            7 => format!("{}1;2:3<4m", csi),                                        // -> csi ignore
            8 => format!("{}{}", csi, self.r.pick(&["1\r2A", "2\nB", "\x08C", "1;\t2H"])), // C0 inside CSI executes
            _ => format!("\x1b{}", self.r.pick(&["(", ")", "#", "%", " "])),
        }
    }

    pub fn reset_cmd(&mut self) -> String {
        (*self.r.pick(&["\x1b[!p", "\x1b#8", "\x1b[!p", "\u{9b}!p"])).to_string()
    }

    /// uniformly random scalars mixed with control ranges (G6)
    pub fn soup(&mut self, n: usize) -> String {
        let mut s = String::new();
        for _ in 0..n {
            let c = match self.r.below(12) {
                0 | 1 => self.r.below(0x20) as u32,
                2 => 0x7f,
                3 | 4 => 0x80 + self.r.below(0x20) as u32,
                5 => *self.r.pick(&[0xa0u32, 0x9f, 0xa1, 0xd7ff, 0xe000, 0x10ffff, 0xfffd, 0xffff, 0x10000]),
                6..=8 => 0x20 + self.r.below(0x5f) as u32,
                9 => *self.r.pick(&[0x1bu32, 0x5b, 0x3b, 0x3a, 0x3f, 0x9b, 0x9d, 0x90, 0x9c, 0x18]),
                _ => self.r.below(0x110000) as u32,
            };
            s.push(char::from_u32(c).unwrap_or('\u{fffd}'));
        }
        s
    }

    pub fn token(&mut self, t: usize) -> String {
        match t {
            T_TEXT => self.text(),
            T_TEXTX => self.textx(),
            T_C0 => self.c0(),
            T_CUR => self.cursor_cmd(),
            T_LINES => self.lines_cmd(),
            T_EDIT => self.edit_cmd(),
            T_STBM => self.stbm(),
            T_MODE => self.mode_cmd(),
            T_ALT => self.alt_cmd(),
            T_SAVE => self.save_cmd(),
            T_CHARSET => self.charset_cmd(),
            T_SGR => self.sgr(),
            T_TABS => self.tabs_cmd(),
            T_STR => self.control_string(64),
            T_UNIMPL => self.unimplemented(),
            T_MALFORMED => self.malformed(),
            T_RESET => self.reset_cmd(),
            T_RIS => "\x1bc".into(),
            _ => {
                let n = self.r.range(1, 40);
                self.soup(n)
            }
        }
    }
}

pub fn pick_size(r: &mut Rng, max_cols: usize, max_rows: usize) -> (usize, usize) {
    let c = match r.below(6) {
        0 => 1,
        1 => r.range(1, 3.min(max_cols)),
        2 => *r.pick(&[7usize, 8, 9, 16, 17]),
        _ => r.range(1, max_cols),
    }
    .min(max_cols)
    .max(1);
    let rw = match r.below(6) {
        0 => 1,
        1 => r.range(1, 2.min(max_rows)),
        _ => r.range(1, max_rows),
    };
    (c, rw)
}

/// G1: a grammar-aware history
pub fn history(r: &mut Rng, p: &Profile) -> History {
    let (mut cols, mut rows) = pick_size(r, p.max_cols, p.max_rows);
    if r.chance(p.big_pct, 100) {
        match r.below(3) {
            0 => rows = *r.pick(LADDER),
            1 => cols = *r.pick(LADDER),
            _ => {
                rows = *r.pick(LADDER);
                cols = *r.pick(LADDER);
            }
        }
    }
    let limit = *r.pick(p.limits);
    let mut h = History::new(cols, rows, limit);
    let (mut cc, mut cr) = (cols, rows);
    let ncalls = r.range(p.calls.0, p.calls.1);
    for _ in 0..ncalls {
        if r.chance(p.resize_pct, 100) {
            let (mut c, mut rw) = pick_size(r, p.max_cols, p.max_rows);
            if r.chance(p.big_pct, 100) {
                if r.chance(1, 2) {
                    rw = *r.pick(LADDER);
                } else {
                    c = *r.pick(LADDER);
                }
            }
            // also width-only and height-only changes
            let (c, rw) = match r.below(4) {
                0 => (c, cr),
                1 => (cc, rw),
                _ => (c, rw),
            };
            h.calls.push(Call::Resize(c, rw));
            cc = c;
            cr = rw;
            continue;
        }
        let ntok = r.range(p.tokens.0, p.tokens.1);
        let mut s = String::new();
        for _ in 0..ntok {
            let t = r.weighted(&p.w);
            let mut g = Gen::new(r, cc, cr);
            g.huge_pct = p.huge_pct;
            s.push_str(&g.token(t));
        }
        // occasionally cut the call in the middle of a sequence
        if r.chance(1, 6) && s.chars().count() > 2 {
            let cut = r.range(1, s.chars().count() - 1);
            let a: String = s.chars().take(cut).collect();
            let b: String = s.chars().skip(cut).collect();
            h.calls.push(Call::FeedStr(a));
            if r.chance(p.resize_pct, 50) {
                let (c, rw) = pick_size(r, p.max_cols, p.max_rows);
                h.calls.push(Call::Resize(c, rw));
                cc = c;
                cr = rw;
            }
            h.calls.push(Call::FeedStr(b));
        } else if r.chance(1, 5) {
            h.calls.push(Call::Feed(s));
        } else {
            h.calls.push(Call::FeedStr(s));
        }
    }
    h
}
