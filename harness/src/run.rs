//! Supervisor: shards a check over worker processes, merges what they observed, applies the
//! minimum-event gates, writes the evidence file and prints the verdict.

use crate::hist::{json_str, History};
use crate::report::Report;
use std::cell::RefCell;
use std::fmt::Write as _;
use std::panic;
use std::path::PathBuf;
use std::process::{Command, Stdio};
use std::time::{Duration, Instant};

#[derive(Clone, Debug)]
pub struct Ctx {
    pub prop: String,
    pub thorough: bool,
    pub seed: u64,
    pub shard: usize,
    pub nshards: usize,
}

impl Ctx {
    /// indices of this shard's work units out of `total`
    pub fn units(&self, total: usize) -> impl Iterator<Item = usize> {
        (self.shard..total).step_by(self.nshards)
    }
    pub fn scale(&self, quick: usize, thorough: usize) -> usize {
        if self.thorough {
            thorough
        } else {
            quick
        }
    }
}

thread_local! {
    pub static LAST_PANIC: RefCell<Option<(String, String)>> = RefCell::new(None);
}

pub fn install_panic_hook() {
    panic::set_hook(Box::new(|info| {
        let loc = info.location().map(|l| format!("{}:{}", l.file(), l.line())).unwrap_or_default();
        let msg = if let Some(s) = info.payload().downcast_ref::<&str>() {
            s.to_string()
        } else if let Some(s) = info.payload().downcast_ref::<String>() {
            s.clone()
        } else {
            "panic".to_string()
        };
        LAST_PANIC.with(|p| *p.borrow_mut() = Some((msg, loc)));
    }));
}

pub enum Guarded<T> {
    Done(T),
    /// a panic inside avt (message, location)
    AvtPanic(String, String),
    /// a panic inside the harness itself
    HarnessPanic(String, String),
}

/// Run `f` under catch_unwind and classify a panic by where it was raised.
pub fn guarded<T>(f: impl FnOnce() -> T) -> Guarded<T> {
    match panic::catch_unwind(panic::AssertUnwindSafe(f)) {
        Ok(v) => Guarded::Done(v),
        Err(_) => {
            let (msg, loc) = LAST_PANIC.with(|p| p.borrow_mut().take()).unwrap_or_default();
            // std panics (slice index, rotate, overflow in core) report a location in library/
            // code only when called from avt or the harness; harness files live under src/ of
            // this crate and are compiled with relative paths
            if loc.starts_with("src/") && !loc.starts_with("src/../") && is_harness_file(&loc) {
                Guarded::HarnessPanic(msg, loc)
            } else {
                Guarded::AvtPanic(msg, loc)
            }
        }
    }
}

fn is_harness_file(loc: &str) -> bool {
    // avt is a path dependency with an absolute path (/repo/src/...), the harness' own files are
    // reported relative to the crate root (src/...)
    !loc.starts_with('/')
}

pub fn evidence_dir() -> PathBuf {
    PathBuf::from(std::env::var("VERIF_ROOT").unwrap_or_else(|_| "/verif".into()))
}

pub struct Gate {
    pub counter: &'static str,
    pub min_quick: u64,
    pub min_thorough: u64,
}

pub struct CheckSpec {
    pub prop: &'static str,
    pub rule: &'static str,
    pub assumptions: &'static [&'static str],
    pub gates: Vec<Gate>,
    /// per-shard watchdog (seconds) for quick / thorough
    pub watchdog: (u64, u64),
    pub exhaustive: bool,
}

pub fn supervise(spec: &CheckSpec, thorough: bool, seed: u64, extra: Option<Report>) -> i32 {
    let t0 = Instant::now();
    let nshards: usize = std::env::var("VERIF_SHARDS").ok().and_then(|s| s.parse().ok()).unwrap_or(16);
    let exe = std::env::current_exe().expect("current_exe");
    let root = evidence_dir();
    let tmp = root.join("harness/target/run");
    let _ = std::fs::create_dir_all(&tmp);
    let tier = if thorough { "thorough" } else { "quick" };
    let mut children = Vec::new();
    for shard in 0..nshards {
        let out = tmp.join(format!("{}-{}-{}.rep", spec.prop, tier, shard));
        let _ = std::fs::remove_file(&out);
        let child = Command::new(&exe)
            .arg("--worker")
            .arg(spec.prop)
            .arg(tier)
            .arg(seed.to_string())
            .arg(shard.to_string())
            .arg(nshards.to_string())
            .arg(&out)
            .stdin(Stdio::null())
            .stdout(Stdio::null())
            .stderr(Stdio::inherit())
            .spawn()
            .expect("spawn worker");
        children.push((shard, out, child, false));
    }
    let limit = Duration::from_secs(if thorough { spec.watchdog.1 } else { spec.watchdog.0 });
    let mut merged = Report::new();
    if let Some(e) = extra {
        merged.merge(e);
    }
    let mut pending = children.len();
    let mut done = vec![false; children.len()];
    while pending > 0 {
        for (i, (shard, out, child, _)) in children.iter_mut().enumerate() {
            if done[i] {
                continue;
            }
            match child.try_wait() {
                Ok(Some(status)) => {
                    done[i] = true;
                    pending -= 1;
                    let text = std::fs::read_to_string(&*out).unwrap_or_default();
                    match Report::from_text(&text) {
                        Some(r) if status.success() => merged.merge(r),
                        _ => merged.inconclusive(format!("worker {} ended abnormally ({})", shard, status)),
                    }
                    let _ = std::fs::remove_file(&*out);
                }
                Ok(None) => {
                    if t0.elapsed() > limit {
                        let _ = child.kill();
                        let _ = child.wait();
                        done[i] = true;
                        pending -= 1;
                        merged.inconclusive(format!("worker {} exceeded the {}s watchdog", shard, limit.as_secs()));
                    }
                }
                Err(e) => {
                    done[i] = true;
                    pending -= 1;
                    merged.inconclusive(format!("worker {}: {}", shard, e));
                }
            }
        }
        std::thread::sleep(Duration::from_millis(20));
    }
    finish(spec, thorough, seed, merged, t0)
}

pub fn finish(spec: &CheckSpec, thorough: bool, seed: u64, mut merged: Report, t0: Instant) -> i32 {
    let root = evidence_dir();
    let tier = if thorough { "thorough" } else { "quick" };
    // gates: a monitor that observed too little is not a pass
    for g in &spec.gates {
        let need = if thorough { g.min_thorough } else { g.min_quick };
        let got = merged.get(g.counter);
        if got < need {
            merged.inconclusive(format!("monitor observed too little: {} = {} < {}", g.counter, got, need));
        }
    }
    // known findings file
    let known_file = std::fs::read_to_string(root.join("KNOWN_FINDINGS.txt")).unwrap_or_default();
    let listed: Vec<(String, String)> = known_file
        .lines()
        .filter(|l| l.starts_with("known:"))
        .filter_map(|l| {
            let mut it = l["known:".len()..].trim().splitn(3, ' ');
            let p = it.next()?.strip_prefix("property=")?.to_string();
            let id = it.next()?.to_string();
            Some((p, id))
        })
        .collect();
    let mut exit = 0;
    let mut nviol = 0;
    // findings the monitors classified as known must be listed in the committed file
    let known: Vec<(String, (u64, String))> = merged.known.iter().map(|(k, v)| (k.clone(), v.clone())).collect();
    for (id, (n, example)) in &known {
        if listed.iter().any(|(p, i)| p == spec.prop && i == id) {
            println!("KNOWN-FINDING: property={} {} ({} occurrences this run) e.g. {}", spec.prop, id, n, example);
        } else {
            let path = write_replay(&root, spec.prop, seed, nviol, &format!("unlisted finding {}", id), example);
            println!("VIOLATION property={} replay={}", spec.prop, path);
            nviol += 1;
            exit = 1;
        }
    }
    let viols = merged.violations.clone();
    for v in viols.iter().filter(|v| v.prop == spec.prop) {
        let path = write_replay(&root, spec.prop, seed, nviol, &v.msg, &v.hist);
        println!("VIOLATION property={} replay={}", spec.prop, path);
        println!("  {}", v.msg.chars().take(400).collect::<String>());
        nviol += 1;
        exit = 1;
    }
    let total_viol = merged.get(&format!("violations[{}]", spec.prop));
    if exit == 0 && !merged.inconclusive.is_empty() {
        exit = 2;
    }
    for i in &merged.inconclusive {
        println!("INCONCLUSIVE: {}", i);
    }
    let wall = t0.elapsed().as_secs_f64();
    // evidence
    let mut j = String::new();
    let _ = write!(
        j,
        "{{\n \"property_id\": {},\n \"tier\": {},\n \"seed\": {},\n \"level\": \"exploration\",\n \"wall_s\": {:.2},\n \"violations\": {},\n",
        json_str(spec.prop),
        json_str(tier),
        seed,
        wall,
        total_viol.max(nviol as u64)
    );
    let _ = write!(j, " \"verdict\": {},\n", json_str(match exit {
        0 => "held on everything explored",
        1 => "violated",
        _ => "inconclusive",
    }));
    let _ = write!(j, " \"assumptions\": [{}],\n", spec.assumptions.iter().map(|a| json_str(a)).collect::<Vec<_>>().join(", "));
    let _ = write!(j, " \"coverage\": {{\n  \"evaluations\": {},\n  \"distinct_nontrivial\": {},\n", merged.evaluations, merged.keys.len());
    let _ = write!(j, "  \"rule\": {},\n", json_str(spec.rule));
    if spec.exhaustive {
        let _ = write!(j, "  \"exhaustive_subspace\": true,\n");
    }
    let _ = write!(j, "  \"samples\": [{}],\n", merged.samples.iter().map(|s| json_str(s)).collect::<Vec<_>>().join(",\n   "));
    let _ = write!(j, "  \"known_findings_matched\": {{{}}},\n", merged.known.iter().map(|(k, (n, _))| format!("{}: {}", json_str(k), n)).collect::<Vec<_>>().join(", "));
    let _ = write!(j, "  \"inconclusive\": [{}],\n", merged.inconclusive.iter().map(|s| json_str(s)).collect::<Vec<_>>().join(", "));
    let _ = merged.to_text(); // flush fast counters
    let _ = write!(j, "  \"observed\": {{\n{}\n  }}\n }}\n}}\n", merged.counters.iter().map(|(k, v)| format!("   {}: {}", json_str(k), v)).collect::<Vec<_>>().join(",\n"));
    let evdir = root.join("evidence");
    let _ = std::fs::create_dir_all(&evdir);
    if let Err(e) = std::fs::write(evdir.join(format!("{}.json", spec.prop)), j) {
        println!("INCONCLUSIVE: cannot write evidence: {}", e);
        if exit == 0 {
            exit = 2;
        }
    }
    println!(
        "{} {} seed={} : {} evaluations, {} distinct situations, {} violations, {:.1}s -> {}",
        spec.prop,
        tier,
        seed,
        merged.evaluations,
        merged.keys.len(),
        nviol,
        wall,
        match exit {
            0 => "HELD",
            1 => "VIOLATED",
            _ => "INCONCLUSIVE",
        }
    );
    exit
}

fn write_replay(root: &PathBuf, prop: &str, seed: u64, n: usize, msg: &str, hist: &str) -> String {
    let dir = root.join("replays");
    let _ = std::fs::create_dir_all(&dir);
    let path = dir.join(format!("{}-{}-{}.replay", prop, seed, n));
    let mut body = format!("property {}\nmessage {}\n", prop, crate::hist::esc(msg));
    body.push_str(hist);
    let _ = std::fs::write(&path, body);
    path.display().to_string()
}

pub fn load_replay(path: &str) -> Option<(String, History)> {
    let t = std::fs::read_to_string(path).ok()?;
    let prop = t.lines().find_map(|l| l.strip_prefix("property "))?.to_string();
    Some((prop, History::from_text(&t)?))
}
