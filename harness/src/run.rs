//! Supervisor: shards a check over worker processes, merges what they observed, applies the
//! minimum-event gates, writes the evidence file and prints the verdict.

use crate::hist::{json_str, History};
use crate::report::Report;
use std::cell::RefCell;
use std::fmt::Write as _;
use std::panic;
use std::path::PathBuf;
use std::process::{Command, Stdio};
use std::time::{Duration, Instant};

#[derive(Clone, Debug)]
pub struct Ctx {
    pub prop: String,
    pub thorough: bool,
    pub seed: u64,
    pub shard: usize,
    pub nshards: usize,
}

impl Ctx {
    /// indices of this shard's work units out of `total`
    pub fn units(&self, total: usize) -> impl Iterator<Item = usize> {
        (self.shard..total).step_by(self.nshards)
    }
    pub fn scale(&self, quick: usize, thorough: usize) -> usize {
        if self.thorough {
            thorough
        } else {
            quick
        }
    }
}

thread_local! {
    pub static LAST_PANIC: RefCell<Option<(String, String)>> = RefCell::new(None);
}

pub fn install_panic_hook() {
    panic::set_hook(Box::new(|info| {
        let loc = info.location().map(|l| format!("{}:{}", l.file(), l.line())).unwrap_or_default();
        let msg = if let Some(s) = info.payload().downcast_ref::<&str>() {
            s.to_string()
        } else if let Some(s) = info.payload().downcast_ref::<String>() {
            s.clone()
        } else {
            "panic".to_string()
        };
        LAST_PANIC.with(|p| *p.borrow_mut() = Some((msg, loc)));
    }));
}

pub enum Guarded<T> {
    Done(T),
    /// a panic inside avt (message, location)
    AvtPanic(String, String),
    /// a panic inside the harness itself
    HarnessPanic(String, String),
}

/// Run `f` under catch_unwind and classify a panic by where it was raised.
pub fn guarded<T>(f: impl FnOnce() -> T) -> Guarded<T> {
    match panic::catch_unwind(panic::AssertUnwindSafe(f)) {
        Ok(v) => Guarded::Done(v),
        Err(_) => {
            let (msg, loc) = LAST_PANIC.with(|p| p.borrow_mut().take()).unwrap_or_default();
            // std panics (slice index, rotate, overflow in core) report a location in library/
            // code only when called from avt or the harness; harness files live under src/ of
            // this crate and are compiled with relative paths
            if loc.starts_with("src/") && !loc.starts_with("src/../") && is_harness_file(&loc) {
                Guarded::HarnessPanic(msg, loc)
            } else {
                Guarded::AvtPanic(msg, loc)
            }
        }
    }
}

fn is_harness_file(loc: &str) -> bool {
    // avt is a path dependency with an absolute path (/repo/src/...), the harness' own files are
    // reported relative to the crate root (src/...)
    !loc.starts_with('/')
}

pub fn evidence_dir() -> PathBuf {
    PathBuf::from(std::env::var("VERIF_ROOT").unwrap_or_else(|_| "/verif".into()))
}

pub struct Gate {
    pub counter: &'static str,
    pub min_quick: u64,
    pub min_thorough: u64,
}

pub struct CheckSpec {
    pub prop: &'static str,
    pub rule: &'static str,
    pub assumptions: &'static [&'static str],
    pub gates: Vec<Gate>,
    /// per-shard watchdog (seconds) for quick / thorough
    pub watchdog: (u64, u64),
    pub exhaustive: bool,
}

pub fn supervise(spec: &CheckSpec, thorough: bool, seed: u64, extra: Option<Report>) -> i32 {
    let t0 = Instant::now();
    let exe = std::env::current_exe().expect("current_exe");
    let mut merged = Report::new();
    if let Some(e) = extra {
        merged.merge(e);
    }
    let limit = Duration::from_secs(std::env::var("VERIF_WATCHDOG").ok().and_then(|s| s.parse().ok()).unwrap_or(if thorough { spec.watchdog.1 } else { spec.watchdog.0 }));
    run_workers(&exe, spec.prop, spec.prop, thorough, seed, limit, &mut merged);
    if spec.prop == "C01" && thorough {
        // the same workload in the build users ship (wrapping arithmetic): the verdict must not
        // depend on which of the two was used
        let fast = evidence_dir().join("harness/target/fast/avt_verif");
        if fast.exists() {
            run_workers(&fast, "C01", "C01", thorough, seed, limit, &mut merged);
        } else {
            merged.inconclusive("the release-arithmetic build (profile fast) is missing".into());
        }
        miri_shard(seed, &mut merged);
    }
    finish(spec, thorough, seed, merged, t0)
}

/// Low-yield belt-and-braces layer (DESIGN section 7): a small hostile shard under Miri.
fn miri_shard(seed: u64, merged: &mut Report) {
    let root = evidence_dir();
    let n = 16usize;
    let tmp = root.join("harness/target/run");
    let mut kids = Vec::new();
    for shard in 0..n {
        let out = tmp.join(format!("C01miri-{}.rep", shard));
        let _ = std::fs::remove_file(&out);
        let child = Command::new("cargo")
            .current_dir(root.join("harness"))
            .env("MIRIFLAGS", "-Zmiri-disable-isolation")
            .env("CARGO_NET_OFFLINE", "true")
            .env("CARGO_TARGET_DIR", root.join("harness/target/miri"))
            .args(["+nightly", "miri", "run", "--offline", "-q", "--"])
            .arg("--worker")
            .arg("C01miri")
            .arg("thorough")
            .arg(seed.to_string())
            .arg(shard.to_string())
            .arg(n.to_string())
            .arg(&out)
            .stdin(Stdio::null())
            .stdout(Stdio::null())
            .stderr(Stdio::piped())
            .spawn();
        match child {
            Ok(c) => kids.push((shard, out, c)),
            Err(e) => merged.inconclusive(format!("cannot start miri: {}", e)),
        }
        if shard == 0 {
            // let the first process build the crate before the others start
            if let Some((_, _, c)) = kids.last_mut() {
                let t = Instant::now();
                while t.elapsed() < Duration::from_secs(240) {
                    if let Ok(Some(_)) = c.try_wait() {
                        break;
                    }
                    std::thread::sleep(Duration::from_millis(200));
                }
            }
        }
    }
    let t = Instant::now();
    for (shard, out, mut c) in kids {
        loop {
            match c.try_wait() {
                Ok(Some(status)) => {
                    let text = std::fs::read_to_string(&out).unwrap_or_default();
                    let mut err = String::new();
                    if let Some(mut e) = c.stderr.take() {
                        use std::io::Read;
                        let _ = e.read_to_string(&mut err);
                    }
                    match Report::from_text(&text) {
                        Some(r) if status.success() => merged.merge(r),
                        _ => {
                            if err.contains("Undefined Behavior") {
                                let h = History::new(1, 1, None);
                                merged.violation("C01", format!("Miri reports undefined behaviour in shard {}: {}", shard, err.chars().take(600).collect::<String>()), &h);
                            } else {
                                merged.inconclusive(format!("miri shard {} ended abnormally ({}): {}", shard, status, err.chars().take(300).collect::<String>()));
                            }
                        }
                    }
                    let _ = std::fs::remove_file(&out);
                    break;
                }
                Ok(None) => {
                    if t.elapsed() > Duration::from_secs(4000) {
                        let _ = c.kill();
                        let _ = c.wait();
                        merged.inconclusive(format!("miri shard {} exceeded its watchdog", shard));
                        break;
                    }
                    std::thread::sleep(Duration::from_millis(100));
                }
                Err(e) => {
                    merged.inconclusive(format!("miri shard {}: {}", shard, e));
                    break;
                }
            }
        }
    }
}

fn run_workers(exe: &std::path::Path, prop_arg: &str, prop: &str, thorough: bool, seed: u64, limit: Duration, merged: &mut Report) {
    let t0 = Instant::now();
    let nshards: usize = std::env::var("VERIF_SHARDS").ok().and_then(|s| s.parse().ok()).unwrap_or(16);
    let root = evidence_dir();
    let tmp = root.join("harness/target/run");
    let _ = std::fs::create_dir_all(&tmp);
    let tier = if thorough { "thorough" } else { "quick" };
    let mut children = Vec::new();
    for shard in 0..nshards {
        let out = tmp.join(format!("{}-{}-{}.rep", prop, tier, shard));
        let _ = std::fs::remove_file(&out);
        let child = Command::new(exe)
            .arg("--worker")
            .arg(prop_arg)
            .arg(tier)
            .arg(seed.to_string())
            .arg(shard.to_string())
            .arg(nshards.to_string())
            .arg(&out)
            .stdin(Stdio::null())
            .stdout(Stdio::null())
            .stderr(Stdio::inherit())
            .spawn()
            .expect("spawn worker");
        children.push((shard, out, child));
    }
    let mut pending = children.len();
    let mut done = vec![false; children.len()];
    while pending > 0 {
        for (i, (shard, out, child)) in children.iter_mut().enumerate() {
            if done[i] {
                continue;
            }
            let mut died: Option<String> = None;
            match child.try_wait() {
                Ok(Some(status)) => {
                    done[i] = true;
                    pending -= 1;
                    let text = std::fs::read_to_string(&*out).unwrap_or_default();
                    match Report::from_text(&text) {
                        Some(r) if status.success() => merged.merge(r),
                        _ => died = Some(format!("ended abnormally ({})", status)),
                    }
                    let _ = std::fs::remove_file(&*out);
                }
                Ok(None) => {
                    if t0.elapsed() > limit {
                        let _ = child.kill();
                        let _ = child.wait();
                        done[i] = true;
                        pending -= 1;
                        died = Some(format!("exceeded the {}s watchdog", limit.as_secs()));
                    }
                }
                Err(e) => {
                    done[i] = true;
                    pending -= 1;
                    merged.inconclusive(format!("worker {}: {}", shard, e));
                }
            }
            if let Some(why) = died {
                let cur = format!("{}.cur", out.display());
                if prop == "C01" {
                    isolate_c01(exe, tier, seed, *shard, nshards, &cur, &why, merged);
                } else {
                    merged.inconclusive(format!("worker {} {}", shard, why));
                }
            }
            if done[i] {
                let _ = std::fs::remove_file(format!("{}.cur", out.display()));
            }
        }
        std::thread::sleep(Duration::from_millis(20));
    }
}

/// A C01 worker died or stopped returning: re-run the batch it was in, unit by unit, each in a
/// fresh process (16 at a time).  Only a unit that fails three times out of three is a violation;
/// after the first confirmed culprit no further batches are isolated (one witness is enough).
fn isolate_c01(exe: &std::path::Path, tier: &str, seed: u64, shard: usize, nshards: usize, cur_file: &str, why: &str, merged: &mut Report) {
    if merged.get("violations[C01]") > 0 && merged.get("isolated_batches") > 0 {
        merged.count("worker_deaths_not_isolated_after_first_culprit", 1);
        return;
    }
    let cur = std::fs::read_to_string(cur_file).unwrap_or_default();
    let Ok(u0) = cur.trim().parse::<usize>() else {
        merged.inconclusive(format!("C01 worker {} {} outside the sharded workload ({:?}): not isolated", shard, why, cur.trim()));
        return;
    };
    merged.count("isolated_batches", 1);
    let tmp = evidence_dir().join("harness/target/run");
    let per_unit = Duration::from_secs(std::env::var("VERIF_UNIT_WATCHDOG").ok().and_then(|s| s.parse().ok()).unwrap_or(if tier == "thorough" { 120 } else { 30 }));
    // run a set of units concurrently; returns (unit, ok, text)
    let run_set = |units: &[usize]| -> Vec<(usize, bool, String)> {
        let mut kids = Vec::new();
        for &u in units {
            let out = tmp.join(format!("C01-single-{}-{}.txt", shard, u));
            let _ = std::fs::remove_file(&out);
            let c = Command::new(exe).arg("--single").arg("C01").arg(tier).arg(seed.to_string()).arg(u.to_string()).arg(&out).stdin(Stdio::null()).stdout(Stdio::null()).stderr(Stdio::null()).spawn();
            kids.push((u, out, c.ok()));
        }
        let t = Instant::now();
        let mut res = Vec::new();
        for (u, out, c) in kids {
            let ok = match c {
                None => true,
                Some(mut c) => loop {
                    match c.try_wait() {
                        Ok(Some(st)) => break st.success(),
                        Ok(None) => {
                            if t.elapsed() > per_unit {
                                let _ = c.kill();
                                let _ = c.wait();
                                break false;
                            }
                            std::thread::sleep(Duration::from_millis(10));
                        }
                        Err(_) => break true,
                    }
                },
            };
            let text = std::fs::read_to_string(&out).unwrap_or_default();
            let _ = std::fs::remove_file(&out);
            let fine = ok && text.contains("\nOK\n");
            res.push((u, fine, text));
        }
        res
    };
    let units: Vec<usize> = (0..crate::mon::c01::BATCH).map(|k| u0 + k * nshards).collect();
    let mut failing: Vec<(usize, String)> = Vec::new();
    for chunk in units.chunks(16) {
        for (u, ok, text) in run_set(chunk) {
            if ok {
                if let Some(pos) = text.find("\nOK\n") {
                    if let Some(r) = Report::from_text(&text[pos + 4..]) {
                        merged.merge(r);
                    }
                }
            } else {
                failing.push((u, text));
            }
        }
    }
    let mut culprit = false;
    for (u, text) in failing.into_iter().take(4) {
        let again = run_set(&[u, u]);
        if again.iter().all(|(_, ok, _)| !ok) {
            culprit = true;
            match History::from_text(&text) {
                Some(h) => merged.violation("C01", format!("work unit {} kills the process or does not return within {}s (3 out of 3 isolated runs; worker {})", u, per_unit.as_secs(), why), &h),
                None => merged.inconclusive(format!("work unit {} fails in isolation but its history could not be recorded", u)),
            }
        } else {
            merged.inconclusive(format!("work unit {} failed once in isolation but not reproducibly", u));
        }
    }
    if !culprit {
        merged.inconclusive(format!("C01 worker {} {} but no unit of its batch reproduces it; the rest of its shard was not explored", shard, why));
    }
}

pub fn finish(spec: &CheckSpec, thorough: bool, seed: u64, mut merged: Report, t0: Instant) -> i32 {
    let root = evidence_dir();
    let tier = if thorough { "thorough" } else { "quick" };
    // gates: a monitor that observed too little is not a pass
    for g in &spec.gates {
        let need = if thorough { g.min_thorough } else { g.min_quick };
        let got = merged.get(g.counter);
        if got < need {
            merged.inconclusive(format!("monitor observed too little: {} = {} < {}", g.counter, got, need));
        }
    }
    // known findings file
    let known_file = std::fs::read_to_string(root.join("KNOWN_FINDINGS.txt")).unwrap_or_default();
    let listed: Vec<(String, String)> = known_file
        .lines()
        .filter(|l| l.starts_with("known:"))
        .filter_map(|l| {
            let mut it = l["known:".len()..].trim().splitn(3, ' ');
            let p = it.next()?.strip_prefix("property=")?.to_string();
            let id = it.next()?.to_string();
            Some((p, id))
        })
        .collect();
    let mut exit = 0;
    let mut nviol = 0;
    // findings the monitors classified as known must be listed in the committed file
    let known: Vec<(String, (u64, String))> = merged.known.iter().map(|(k, v)| (k.clone(), v.clone())).collect();
    for (id, (n, example)) in &known {
        if listed.iter().any(|(p, i)| p == spec.prop && i == id) {
            println!("KNOWN-FINDING: property={} {} ({} occurrences this run) e.g. {}", spec.prop, id, n, example);
        } else {
            let path = write_replay(&root, spec.prop, seed, nviol, &format!("unlisted finding {}", id), example);
            println!("VIOLATION property={} replay={}", spec.prop, path);
            nviol += 1;
            exit = 1;
        }
    }
    let viols = merged.violations.clone();
    for v in viols.iter().filter(|v| v.prop == spec.prop) {
        let path = write_replay(&root, spec.prop, seed, nviol, &v.msg, &v.hist);
        println!("VIOLATION property={} replay={}", spec.prop, path);
        println!("  {}", v.msg.chars().take(400).collect::<String>());
        nviol += 1;
        exit = 1;
    }
    let total_viol = merged.get(&format!("violations[{}]", spec.prop));
    if exit == 0 && !merged.inconclusive.is_empty() {
        exit = 2;
    }
    for i in &merged.inconclusive {
        println!("INCONCLUSIVE: {}", i);
    }
    let wall = t0.elapsed().as_secs_f64();
    // evidence
    let mut j = String::new();
    let _ = write!(
        j,
        "{{\n \"property_id\": {},\n \"tier\": {},\n \"seed\": {},\n \"level\": \"exploration\",\n \"wall_s\": {:.2},\n \"violations\": {},\n",
        json_str(spec.prop),
        json_str(tier),
        seed,
        wall,
        total_viol.max(nviol as u64)
    );
    let _ = write!(j, " \"verdict\": {},\n", json_str(match exit {
        0 => "held on everything explored",
        1 => "violated",
        _ => "inconclusive",
    }));
    let _ = write!(j, " \"assumptions\": [{}],\n", spec.assumptions.iter().map(|a| json_str(a)).collect::<Vec<_>>().join(", "));
    let _ = write!(j, " \"coverage\": {{\n  \"evaluations\": {},\n  \"distinct_nontrivial\": {},\n", merged.evaluations, merged.keys.len());
    let _ = write!(j, "  \"rule\": {},\n", json_str(spec.rule));
    if spec.exhaustive {
        let _ = write!(j, "  \"exhaustive_subspace\": true,\n");
    }
    let _ = write!(j, "  \"samples\": [{}],\n", merged.samples.iter().map(|s| json_str(s)).collect::<Vec<_>>().join(",\n   "));
    let _ = write!(j, "  \"known_findings_matched\": {{{}}},\n", merged.known.iter().map(|(k, (n, _))| format!("{}: {}", json_str(k), n)).collect::<Vec<_>>().join(", "));
    let _ = write!(j, "  \"inconclusive\": [{}],\n", merged.inconclusive.iter().map(|s| json_str(s)).collect::<Vec<_>>().join(", "));
    let _ = merged.to_text(); // flush fast counters
    let _ = write!(j, "  \"observed\": {{\n{}\n  }}\n }}\n}}\n", merged.counters.iter().map(|(k, v)| format!("   {}: {}", json_str(k), v)).collect::<Vec<_>>().join(",\n"));
    let evdir = root.join("evidence");
    let _ = std::fs::create_dir_all(&evdir);
    if let Err(e) = std::fs::write(evdir.join(format!("{}.json", spec.prop)), j) {
        println!("INCONCLUSIVE: cannot write evidence: {}", e);
        if exit == 0 {
            exit = 2;
        }
    }
    println!(
        "{} {} seed={} : {} evaluations, {} distinct situations, {} violations, {:.1}s -> {}",
        spec.prop,
        tier,
        seed,
        merged.evaluations,
        merged.keys.len(),
        nviol,
        wall,
        match exit {
            0 => "HELD",
            1 => "VIOLATED",
            _ => "INCONCLUSIVE",
        }
    );
    exit
}

fn write_replay(root: &PathBuf, prop: &str, seed: u64, n: usize, msg: &str, hist: &str) -> String {
    let dir = root.join("replays");
    let _ = std::fs::create_dir_all(&dir);
    let path = dir.join(format!("{}-{}-{}.replay", prop, seed, n));
    let mut body = format!("property {}\nmessage {}\n", prop, crate::hist::esc(msg));
    body.push_str(hist);
    let _ = std::fs::write(&path, body);
    path.display().to_string()
}

pub fn load_replay(path: &str) -> Option<(String, History)> {
    let t = std::fs::read_to_string(path).ok()?;
    let prop = t.lines().find_map(|l| l.strip_prefix("property "))?.to_string();
    Some((prop, History::from_text(&t)?))
}
